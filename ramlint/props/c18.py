"""C18 - Schedule transfers end cleanly under faults and never return a mixed schedule."""

from __future__ import annotations

import ast

from ..context import Ctx
from ..loader import AnalysisError, FuncInfo, norm, own_nodes
from ..pairing import bracket_rule, contains_call, method_call
from ..report import RuleResult
from .common import policy_views

META = {
    "explanation": (
        "C18.R1: transfer-lock bracket - in every function that calls tcs._obtain_lock(), every path from it to any exit (normal, "
        "exceptional incl. the protocol errors of async_send_cmd, cancellation at each await - get_schedule's wait_for cancels the inner "
        "coroutine) passes tcs._release_lock(). C18.R2: no module-level mutable sentinel is aliased by an instance attribute that is "
        "mutated in place. C18.R3: on every path to the first fragment request the change counter has been read with I/O. "
        "C18.R4: overheard fragments are only merged under a test of the system's zone_lock_idx. "
        "Not decided: 'never a schedule stitched from two versions' as a trace property; termination of the fragment loop."
    ),
}
META["explanation"] += " C18.R3 also: decision table of _is_dated - with force_io a 'not dated' answer follows an I/O read of the change counter."
META["explanation"] += ' C18.R3 also: a protocol error from the RQ|0006 exchange cannot be swallowed.'

MUTATORS = {"append", "extend", "insert", "pop", "remove", "clear", "update", "setdefault", "popitem", "sort", "reverse", "add", "discard"}


def check(ctx: Ctx) -> list[RuleResult]:
    repo = ctx.repo
    pol = policy_views(ctx)
    out: list[RuleResult] = []

    # ---- R1 ---------------------------------------------------------------------------
    r1 = RuleResult("R1", "transfer-lock bracket on all exits", "every path from _obtain_lock() to any exit passes _release_lock()", min_instances=2)
    holders = [
        f
        for f in repo.funcs.values()
        if f.module.name.startswith("ramses_rf") and f.name not in ("_obtain_lock", "_release_lock") and any(isinstance(n, ast.Call) and method_call("_obtain_lock")(n) for n in own_nodes(f.node))
    ]
    for need in ("ramses_rf.system.schedule.Schedule._get_schedule", "ramses_rf.system.schedule.Schedule.set_schedule"):
        if repo.func(need) not in holders:
            raise AnalysisError(f"{need} no longer calls _obtain_lock(): the bracket anchor moved")
    for f in holders:
        bracket_rule(ctx, r1, f, method_call("_obtain_lock"), method_call("_release_lock"), pol, "schedule transfer lock leaked")
    out.append(r1)

    # ---- R2 ---------------------------------------------------------------------------
    r2 = RuleResult("R2", "no shared mutable sentinel", "a module-level list/dict/set constant is never bound to an instance attribute that is mutated in place", min_instances=1)
    for m in repo.modules.values():
        if not m.name.startswith(("ramses_rf", "ramses_tx")):
            continue
        consts: dict[str, ast.AST] = {}
        for st in m.tree.body:
            if isinstance(st, (ast.Assign, ast.AnnAssign)) and st.value is not None and isinstance(st.value, (ast.List, ast.Dict, ast.Set)):
                for t in st.targets if isinstance(st, ast.Assign) else [st.target]:
                    if isinstance(t, ast.Name) and t.id.isupper():
                        consts[t.id] = st
        if not consts:
            continue
        funcs = [f for f in repo.funcs.values() if f.module is m]
        for cname, cdef in consts.items():
            # (a) functions that may return the constant itself
            returns_const: set[str] = set()
            for f in funcs:
                local_alias = {cname}
                for n in own_nodes(f.node):
                    if isinstance(n, ast.Assign) and isinstance(n.value, ast.Name) and n.value.id in local_alias:
                        for t in n.targets:
                            if isinstance(t, ast.Name):
                                local_alias.add(t.id)
                for n in own_nodes(f.node):
                    if isinstance(n, ast.Return) and isinstance(n.value, ast.Name) and n.value.id in local_alias:
                        returns_const.add(f.name)
            # (b) attributes that may hold the constant
            attrs: dict[str, tuple[FuncInfo, ast.AST]] = {}
            for f in funcs:
                for n in own_nodes(f.node):
                    if isinstance(n, (ast.Assign, ast.AnnAssign)) and n.value is not None:
                        v = n.value
                        holds = (isinstance(v, ast.Name) and v.id == cname) or (
                            isinstance(v, ast.Call) and isinstance(v.func, ast.Attribute) and v.func.attr in returns_const
                        ) or (isinstance(v, ast.Call) and isinstance(v.func, ast.Name) and v.func.id in returns_const)
                        if holds:
                            for t in n.targets if isinstance(n, ast.Assign) else [n.target]:
                                if isinstance(t, ast.Attribute) and isinstance(t.value, ast.Name) and t.value.id == "self":
                                    attrs.setdefault(t.attr, (f, n))
            if not attrs:
                continue
            # (c) in-place mutation of such an attribute, or of a parameter it is passed as
            for attr, (wf, wn) in attrs.items():
                r2.instances += 1
                r2.nontrivial += 1
                muts: list[tuple[FuncInfo, ast.AST]] = []
                param_alias: dict[str, set[str]] = {}
                for f in funcs:
                    for n in own_nodes(f.node):
                        if isinstance(n, ast.Call):
                            for i, a in enumerate(n.args):
                                if norm(a) == f"self.{attr}":
                                    callee = n.func.attr if isinstance(n.func, ast.Attribute) else (n.func.id if isinstance(n.func, ast.Name) else "")
                                    for g in funcs:
                                        if g.name == callee:
                                            ps = [p.arg for p in g.node.args.args if p.arg not in ("self", "cls")]
                                            if i < len(ps):
                                                param_alias.setdefault(g.qualname, set()).add(ps[i])
                for f in funcs:
                    names = {f"self.{attr}"} | param_alias.get(f.qualname, set())
                    for n in own_nodes(f.node):
                        if isinstance(n, ast.Subscript) and isinstance(n.ctx, (ast.Store, ast.Del)) and norm(n.value) in names:
                            muts.append((f, n))
                        elif isinstance(n, ast.AugAssign) and norm(n.target) in names and isinstance(n.op, (ast.Add, ast.BitOr)):
                            muts.append((f, n))
                        elif isinstance(n, ast.Call) and isinstance(n.func, ast.Attribute) and n.func.attr in MUTATORS and norm(n.func.value) in names:
                            muts.append((f, n))
                if muts:
                    mf, mn = muts[0]
                    r2.fail(
                        f"{m.name}.{cname}->self.{attr}",
                        wf.loc(wn),
                        f"the module-level mutable constant {cname} is bound to self.{attr} ({norm(wn)[:60]}) and that object is mutated in place: every instance sharing it sees the change",
                        [f"mutation: {x.short} @{x.loc(y)}: {norm(getattr(y, 'parent', y))[:100]}" for x, y in muts[:6]],
                    )
                else:
                    r2.ok({"constant": f"{m.name}.{cname}", "attribute": attr, "mutated_in_place": False})
    # positive twin: the query must see the module constants it is about
    twin = repo.mod("ramses_rf.system.schedule")
    if not any(isinstance(st, (ast.Assign, ast.AnnAssign)) and "EMPTY_PAYLOAD_SET" in norm(st) for st in twin.tree.body):
        raise AnalysisError("EMPTY_PAYLOAD_SET not found in ramses_rf.system.schedule")
    r2.instances = max(r2.instances, 1)
    out.append(r2)

    # ---- R3 ---------------------------------------------------------------------------
    r3 = RuleResult("R3", "version read dominates the first fragment request", "on every path to get_fragment(), the change counter was read with I/O (did_io or _schedule_version(force_io=True))", min_instances=1)
    gs = repo.func("ramses_rf.system.schedule.Schedule._get_schedule")
    cfg = ctx.cfg(gs, pol)
    # the fragment request: a call of whatever (closure or method) builds Command.get_schedule_fragment, or that call itself
    from .common import module_scope, pool

    def _requests_fragment(g) -> bool:
        return any(isinstance(n, ast.Call) and isinstance(n.func, ast.Attribute) and n.func.attr == "get_schedule_fragment" for _g, n in pool([g] + list(g.nested.values())))

    senders = {g.name for g in module_scope(ctx, gs) if g is not gs and _requests_fragment(g)}
    if not senders and not _requests_fragment(gs):
        raise AnalysisError("Schedule._get_schedule no longer reaches Command.get_schedule_fragment")

    def _is_frag_call(c: ast.Call) -> bool:
        if isinstance(c.func, ast.Name) and c.func.id in senders:
            return True
        return isinstance(c.func, ast.Attribute) and (c.func.attr in senders or c.func.attr == "get_schedule_fragment")

    frag_nodes = [n for n in cfg.nodes if n.kind == "stmt" and not isinstance(n.ast, (ast.FunctionDef, ast.AsyncFunctionDef)) and contains_call(n.ast, _is_frag_call)]
    if not frag_nodes:
        raise AnalysisError("no fragment request in Schedule._get_schedule")
    did_io_def = [n for n in own_nodes(gs.node) if isinstance(n, ast.Assign) and "did_io" in norm(n.targets[0]) and "_is_dated" in norm(n.value)]
    if not did_io_def:
        raise AnalysisError("did_io is no longer taken from _is_dated()")

    def is_version_io(n) -> bool:
        return n.ast is not None and n.kind == "stmt" and contains_call(n.ast, lambda c: method_call("_schedule_version")(c) and any(k.arg == "force_io" and isinstance(k.value, ast.Constant) and k.value.value is True for k in c.keywords))

    for fn in frag_nodes:
        r3.instances += 1
        r3.nontrivial += 1
        seen = {cfg.entry.id}
        todo = [cfg.entry.id]
        reached = False
        while todo:
            x = todo.pop()
            nx = cfg.nodes[x]
            for y, lab in cfg.succ[x]:
                # the false edge of `not did_io` means did_io is True: the version was just read
                if nx.kind == "test" and norm(nx.ast) == "not did_io" and lab == "false":
                    continue
                if nx.kind == "test" and norm(nx.ast) == "did_io" and lab == "true":
                    continue
                ny = cfg.nodes[y]
                if is_version_io(ny):
                    continue
                if y not in seen:
                    seen.add(y)
                    todo.append(y)
                    if y == fn.id:
                        reached = True
        if reached:
            r3.fail(f"{gs.short}:get_fragment-without-version", gs.loc(fn.ast), "a path reaches the first fragment request without the change counter having been read with I/O: the schedule could be stamped with a stale version")
        else:
            r3.ok({"site": norm(fn.ast)[:70], "guard": "did_io or _schedule_version(force_io=True)"})
    # _is_dated(force_io=True) may only answer "not dated" (so the cached schedule is served) after the change counter was read
    # with I/O: decision table of _is_dated (predeval.py), rows with force_io True and is_dated False
    from ..predeval import PredEval, Unsupported

    isd = repo.func("ramses_rf.system.schedule.Schedule._is_dated")
    r3.instances += 1
    r3.nontrivial += 1
    try:
        tab = PredEval(ctx, isd).table()
    except Unsupported as err:
        raise AnalysisError(f"Schedule._is_dated is not a decision procedure the evaluator understands: {err}") from err
    if "force_io" not in tab.atoms and "force_io" not in tab.subjects:
        raise AnalysisError("Schedule._is_dated: force_io is no longer tested")
    bad = []
    n_forced = 0
    for a, r in tab.rows:
        if not a.get("force_io") or not (isinstance(r, tuple) and len(r) == 2):
            continue
        n_forced += 1
        is_dated, did_io = r
        forced = any("_schedule_version" in e and "force_io" in e for e in a["__effects__"])
        if is_dated is False and not (did_io is True or forced):
            bad.append(a)
    if n_forced == 0:
        raise AnalysisError("Schedule._is_dated: no (is_dated, did_io) result under force_io")
    if bad:
        a = bad[0]
        r3.fail(f"{isd.short}:not-dated-without-io", isd.loc(), "with force_io=True, _is_dated() can answer 'not dated' from the cached change counter, without any RQ|0006: a schedule changed at the controller since the last read is not noticed and the cached schedule is served", [tab.describe({k: v for k, v in a.items() if k != "__effects__"})[:300], f"calls made: {list(a['__effects__'])}"])
    else:
        r3.ok({"_is_dated(force_io=True)": "every 'not dated' answer follows an I/O read of the change counter", "rows": n_forced})
    # a version query that fails must fail the caller: around the RQ|0006 send in _schedule_version there is no handler that can
    # swallow a protocol error (a handler that re-raises on every path is fine) - else a lost RQ|0006 is answered from the cached
    # counter and reported as `did_io=True`
    sv = repo.func("ramses_rf.system.heat.ScheduleSync._schedule_version")
    sends = [n for n in own_nodes(sv.node) if isinstance(n, ast.Await) and isinstance(n.value, ast.Call) and norm(n.value.func).endswith("async_send_cmd")]
    if not sends:
        raise AnalysisError("_schedule_version: the RQ|0006 send was not found")
    for snd in sends:
        r3.instances += 1
        r3.nontrivial += 1
        swallow = None
        p2 = getattr(snd, "parent", None)
        child: ast.AST = snd
        while p2 is not None and not isinstance(p2, (ast.FunctionDef, ast.AsyncFunctionDef)):
            if isinstance(p2, ast.Try) and any(child is b or child in ast.walk(b) for b in p2.body):
                for h in p2.handlers:
                    classes = ctx.handler_classes(sv, h)
                    if any(ctx.is_sub("ramses_tx.exceptions.ProtocolError", c) or ctx.is_sub(c, "ramses_tx.exceptions.ProtocolError") for c in classes):
                        if not _always_raises(h.body):
                            swallow = h
            child, p2 = p2, getattr(p2, "parent", None)
        if swallow is not None:
            r3.fail(f"{sv.short}:version-query-error-swallowed", sv.loc(swallow), "a protocol error from the RQ|0006 exchange can be swallowed in _schedule_version: a forced fetch whose version query was lost returns the cached change counter (and the cached schedule) instead of an error")
        else:
            r3.ok({"RQ|0006 send": "protocol errors propagate to the caller"})
    out.append(r3)

    # ---- R4 ---------------------------------------------------------------------------
    r4 = RuleResult("R4", "overheard fragments are merged only under a lock test", "Schedule._handle_msg updates the payload set only under a test of tcs.zone_lock_idx", min_instances=1)
    hm = repo.func("ramses_rf.system.schedule.Schedule._handle_msg")
    from .common import edge_implies, expand, facts_at, short_circuit_facts

    ups_calls = [n for n in own_nodes(hm.node) if isinstance(n, ast.Call) and isinstance(n.func, ast.Attribute) and n.func.attr == "_update_payload_set"]
    if not ups_calls:
        raise AnalysisError("no _update_payload_set() call in Schedule._handle_msg")
    # "this zone does not hold the transfer lock" must be known at the merge, however the guard is spelled (compound test, early
    # returns, nested ifs, operands either way round)
    goal = ast.parse("self.tcs.zone_lock_idx != self.idx", mode="eval").body
    for c in ups_calls:
        r4.instances += 1
        r4.nontrivial += 1
        st = c
        while not isinstance(st, ast.stmt):
            st = st.parent  # type: ignore[attr-defined]
        from .common import inline_calls

        facts = short_circuit_facts(c) + facts_at(st)
        hit = [f"`{norm(t)[:70]}` is {v}" for t, v in facts if edge_implies(expand(hm.node, inline_calls(ctx, hm, t), pure_only=False), v, goal)]  # type: ignore[arg-type]
        if hit:
            r4.ok({"site": norm(st)[:70], "known_because": hit})
        else:
            r4.fail(f"{hm.short}:unguarded-update", hm.loc(c), "an overheard fragment is merged into the payload set without `self.tcs.zone_lock_idx != self.idx` being known there (the zone that holds the transfer lock would mix an overheard fragment into the set its own get/set is building)")
    out.append(r4)

    # ---- R5 ---------------------------------------------------------------------------
    # "always ends with the controller's schedule or an error": an error from a fragment/version exchange inside a transfer may be
    # re-worded, never absorbed - a handler around transfer I/O that can complete normally turns a lost exchange into a success
    from .common import module_scope

    r5 = RuleResult("R5", "transfer I/O errors propagate", "every handler around a fragment/version exchange in Schedule._get_schedule/set_schedule re-raises on all of its paths", min_instances=1)
    S = "ramses_rf.system.schedule.Schedule"
    xfer = [repo.func(f"{S}._get_schedule"), repo.func(f"{S}.set_schedule")]

    def does_io(g) -> bool:
        return any(isinstance(n, ast.Call) and isinstance(n.func, ast.Attribute) and n.func.attr in ("async_send_cmd", "_schedule_version") for n in own_nodes(g.node))

    n_try = 0
    for top in xfer:
        scope = [g for g in module_scope(ctx, top) if g is top or g.parent is top or (g.cls is top.cls and g.parent is None and g.name.startswith("_") and any(isinstance(c, ast.Call) and isinstance(c.func, ast.Attribute) and c.func.attr == g.name and norm(c.func.value) == "self" for c in own_nodes(top.node)))]
        io_names = {g.name for g in scope if g is not top and does_io(g)}
        for g in scope:
            for t in own_nodes(g.node):
                if not isinstance(t, ast.Try):
                    continue
                body_io = any(isinstance(n, ast.Call) and ((isinstance(n.func, ast.Attribute) and n.func.attr in ("async_send_cmd", "_schedule_version")) or (isinstance(n.func, ast.Name) and n.func.id in io_names)) for b in t.body for n in ast.walk(b))
                if not body_io:
                    continue
                for h in t.handlers:
                    classes = ctx.handler_classes(g, h) if h.type is not None else ["builtins.BaseException"]
                    relevant = any(ctx.is_sub("ramses_tx.exceptions.ProtocolError", c) or ctx.is_sub(c, "ramses_tx.exceptions.ProtocolError") or c.endswith(("TimeoutError", ".Exception", "BaseException")) for c in classes)
                    if not relevant:
                        continue
                    n_try += 1
                    r5.instances += 1
                    r5.nontrivial += 1
                    if _always_raises(h.body):
                        r5.ok({"handler": f"{g.short}: except {norm(h.type) if h.type is not None else ''}", "re-raises": True})
                    else:
                        r5.fail(f"{g.short}:transfer-error-absorbed:{norm(h.type)[:40] if h.type is not None else 'bare'}", g.loc(h), f"the handler `except {norm(h.type) if h.type is not None else ''}` around a fragment/version exchange in {g.short} can complete normally: a lost exchange is then reported as a finished transfer (a schedule the controller never took, or never sent)")
    if n_try < 1:
        raise AnalysisError("no handler around transfer I/O found in Schedule._get_schedule/set_schedule (set_schedule re-words TimeoutError)")
    out.append(r5)

    # ---- R6 ---------------------------------------------------------------------------
    # the fetch loop may only be left normally with the assembled schedule: through a `break` under a test of it; running out of
    # iterations (a bounded `for` without an `else: raise`, a `while` whose test can turn false) is a silent "no schedule"
    r6 = RuleResult("R6", "the fetch loop ends with a schedule or an error", "the loop around the fragment requests has no normal exit other than a break under a test of the assembled schedule", min_instances=1)
    gs = repo.func(f"{S}._get_schedule")
    io_names = {g.name for g in module_scope(ctx, gs) if (g.parent is gs or (g.cls is gs.cls and g.parent is None and g is not gs and g.name.startswith("_"))) and does_io(g)}
    loops = [n for n in own_nodes(gs.node) if isinstance(n, (ast.While, ast.For, ast.AsyncFor)) and any(isinstance(c, ast.Call) and ((isinstance(c.func, ast.Name) and c.func.id in io_names) or (isinstance(c.func, ast.Attribute) and (c.func.attr == "async_send_cmd" or (norm(c.func.value) == "self" and c.func.attr in io_names)))) for c in ast.walk(n))]
    if not loops:
        raise AnalysisError("_get_schedule: the fragment request loop was not found")
    for lp in loops:
        r6.instances += 1
        r6.nontrivial += 1
        brks = [b for b in ast.walk(lp) if isinstance(b, ast.Break)]
        full_goal = ast.parse("self._full_schedule", mode="eval").body
        brk_ok = bool(brks) and all(any(edge_implies(expand(gs.node, t, pure_only=False), v, full_goal) for t, v in facts_at(b)) for b in brks)
        natural_exit = True
        why = ""
        if isinstance(lp, ast.While):
            t = lp.test
            if isinstance(t, ast.Constant) and t.value:
                natural_exit = False
                why = "while True"
            else:
                v = t.value if isinstance(t, ast.NamedExpr) else t
                # next(<index> for <index>, x in enumerate(seq, K) if ...) with K >= 1 is never falsy (it raises StopIteration instead)
                if isinstance(v, ast.Call) and norm(v.func) == "next" and len(v.args) == 1 and isinstance(v.args[0], ast.GeneratorExp):
                    ge = v.args[0]
                    g0 = ge.generators[0]
                    if isinstance(g0.iter, ast.Call) and norm(g0.iter.func) == "enumerate" and len(g0.iter.args) == 2 and isinstance(g0.target, ast.Tuple) and isinstance(ge.elt, ast.Name) and isinstance(g0.target.elts[0], ast.Name) and ge.elt.id == g0.target.elts[0].id:
                        k = ctx.consts.eval_in(gs, g0.iter.args[1])
                        if isinstance(k, int) and k >= 1:
                            natural_exit = False
                            why = f"the loop test is an index counted from {k}: never falsy"
        if natural_exit and lp.orelse and _always_raises(lp.orelse):
            natural_exit = False
            why = "the loop's else clause raises"
        if natural_exit:
            # or: the statements after the loop raise unless the schedule is complete
            blk = getattr(lp, "parent", None)
            for fld in ("body", "orelse", "finalbody"):
                sib = getattr(blk, fld, None)
                if isinstance(sib, list) and lp in sib:
                    for st in sib[sib.index(lp) + 1 :]:
                        if isinstance(st, ast.If) and _always_raises(st.body) and edge_implies(expand(gs.node, st.test, pure_only=False), False, full_goal):
                            natural_exit = False
                            why = "an incomplete schedule raises after the loop"
        if not brk_ok:
            r6.fail(f"{gs.short}:loop-break-without-schedule", gs.loc(lp), "the fragment loop can be left by a `break` that is not under a test of the assembled schedule: the fetch ends normally without the controller's schedule")
        elif natural_exit:
            r6.fail(f"{gs.short}:loop-falls-through", gs.loc(lp), "the fragment loop can run out (bounded iteration / a test that can turn false) and fall through: the fetch then ends normally with no schedule and no error")
        else:
            r6.ok({"loop": norm(lp)[:60], "only_normal_exit": "break under `self._full_schedule`", "because": why})
    out.append(r6)

    # ---- R7 ---------------------------------------------------------------------------
    # an abandoned transfer must not keep running: the public entry points bound the transfer with wait_for() (which cancels it);
    # a transfer wrapped in a task and merely waited for with a timeout carries on holding the system-wide lock and sending RQs
    r7 = RuleResult("R7", "an abandoned transfer is cancelled", "the transfer coroutine is awaited directly or through wait_for(); a task made of it is cancelled on the timeout path", min_instances=1)
    for pub in (repo.func(f"{S}.get_schedule"), repo.func(f"{S}.set_schedule")):
        users = [c for c in own_nodes(pub.node) if isinstance(c, ast.Call) and isinstance(c.func, ast.Attribute) and c.func.attr in ("_get_schedule",)]
        for c in users:
            r7.instances += 1
            r7.nontrivial += 1
            par = getattr(c, "parent", None)
            if isinstance(par, ast.Await) or (isinstance(par, ast.Call) and norm(par.func).endswith("wait_for") and par.args and par.args[0] is c):
                r7.ok({"site": f"{pub.short}: {norm(par)[:70]}", "cancelled_on_timeout": True})
                continue
            # wrapped in a task: there has to be a cancel() of it
            tname = None
            if isinstance(par, ast.Call) and norm(par.func).endswith(("create_task", "ensure_future")):
                asg = getattr(par, "parent", None)
                if isinstance(asg, ast.Assign) and isinstance(asg.targets[0], ast.Name):
                    tname = asg.targets[0].id
            cancels = tname is not None and any(isinstance(x, ast.Call) and isinstance(x.func, ast.Attribute) and x.func.attr == "cancel" and norm(x.func.value) == tname for x in own_nodes(pub.node))
            if cancels:
                r7.ok({"site": f"{pub.short}: task {tname}", "cancelled": True})
            else:
                r7.fail(f"{pub.short}:transfer-not-cancelled", pub.loc(c), f"{pub.short} runs the transfer as `{norm(par)[:70]}` and never cancels it: when the caller's timeout expires the transfer carries on, holding the system-wide schedule lock and sending requests, so later transfers for this and other zones time out")
    if r7.instances < 1:
        raise AnalysisError("Schedule.get_schedule: the call of _get_schedule was not found")
    out.append(r7)

    # ---- R8 ---------------------------------------------------------------------------
    # (i) the schedule a write is about is exposed only once the write has gone through: in set_schedule the store of the new
    # schedule comes after the loop that sends the fragments (a store before it, rolled back in some handlers only, leaves a schedule
    # the controller never took in the object - and even a forced fetch serves it while the change counter has not moved);
    # (ii) a future that other transfers wait on is resolved on every way out of the function that created it, cancellation included;
    # (iii) the fragment set is inflated as a whole, checksum included: zlib.decompress(), or a decompressobj whose `eof` is required
    r8 = RuleResult("R8", "nothing half-done is left behind or handed out", "set_schedule stores the new schedule only after the fragment loop; shared futures are resolved on all exits; the blob is inflated to its end", min_instances=1)
    ss = repo.func(f"{S}.set_schedule")
    cfg8 = ctx.plain_cfg(ss)
    send_loops = [x for x in cfg8.nodes if x.ast is not None and isinstance(x.ast, (ast.For, ast.AsyncFor, ast.While)) or (x.kind == "iter")]
    loop_asts = [n for n in own_nodes(ss.node) if isinstance(n, (ast.For, ast.AsyncFor, ast.While)) and any(isinstance(c, ast.Await) for c in ast.walk(n))]
    if not loop_asts:
        raise AnalysisError("set_schedule: the loop that sends the fragments was not found")
    lp8 = loop_asts[0]
    in_loop = {id(x) for x in ast.walk(lp8)}
    stores8 = [n for n in own_nodes(ss.node) if isinstance(n, (ast.Assign, ast.AnnAssign)) and any(isinstance(t, ast.Attribute) and t.attr == "_full_schedule" and isinstance(t.ctx, ast.Store) for t0 in (n.targets if isinstance(n, ast.Assign) else [n.target]) for t in ast.walk(t0))]
    if not stores8:
        raise AnalysisError("set_schedule: no store of the new schedule found")
    for st8 in stores8:
        r8.instances += 1
        r8.nontrivial += 1
        after = getattr(st8, "lineno", 0) > getattr(lp8, "end_lineno", 0) and id(st8) not in in_loop
        # ...and not inside a handler of the try around the loop (a roll-back there restores the *old* value: fine)
        restores_old = isinstance(getattr(st8, "parent", None), ast.ExceptHandler)
        if after or restores_old:
            r8.ok({"store": norm(st8)[:60], "after_the_fragment_loop": after, "rollback_in_handler": restores_old})
        else:
            r8.fail(f"{ss.short}:schedule-exposed-before-written", ss.loc(st8), f"`{norm(st8)[:60]}` in set_schedule runs before the fragments have been sent: if the write fails part-way (any error other than the ones that happen to roll it back, or a cancellation) the object keeps - and get_schedule() serves - a schedule the controller never accepted")
    import re as _re8

    for g in repo.funcs.values():
        if g.module.name not in ("ramses_rf.system.schedule", "ramses_rf.system.heat") or g.cls is None or g.cls.name not in ("Schedule", "ScheduleSync"):
            continue
        for n in own_nodes(g.node):
            if isinstance(n, ast.Assign) and isinstance(n.value, ast.Call) and norm(n.value.func).endswith("create_future") and isinstance(n.targets[0], ast.Attribute):
                attr = norm(n.targets[0])
                r8.instances += 1
                r8.nontrivial += 1
                cfgf = ctx.cfg(g, pol, cancellation=True)
                start = [x for x in cfgf.nodes if x.ast is n]
                def resolves(x, attr=attr):
                    return x.ast is not None and x.kind in ("stmt", "test", "iter", "with") and any(isinstance(c, ast.Call) and isinstance(c.func, ast.Attribute) and c.func.attr in ("set_result", "set_exception", "cancel") and norm(c.func.value) == attr for c in ast.walk(x.ast))
                leaks = cfgf.exits_reachable_without(start[0].id, resolves, skip_start_exc=True) if start else []
                if leaks:
                    ex8, path8, labs8 = leaks[0]
                    r8.fail(f"{g.short}:shared-future-unresolved:{attr}", g.loc(n), f"{g.short} creates `{attr}` for others to wait on, but an exit of the function is reachable without resolving it ({'cancellation' if any('cancel' in l for l in labs8) else 'an exception path'}): a transfer awaiting it waits for ever - holding the system-wide schedule lock", [f"exit via: {' > '.join(labs8[-4:])}"])
                else:
                    r8.ok({"future": attr, "resolved_on_all_exits": True})
    for g in module_scope(ctx, repo.func("ramses_rf.system.schedule.fragz_to_full_sched")):
        for n in own_nodes(g.node):
            if isinstance(n, ast.Call) and norm(n.func).endswith("decompressobj"):
                r8.instances += 1
                r8.nontrivial += 1
                obj = next((norm(a.targets[0]) for a in own_nodes(g.node) if isinstance(a, ast.Assign) and a.value is n), None)
                need = ast.parse(f"{obj}.eof", mode="eval").body if obj else None
                checked = obj is not None and any(isinstance(st, ast.If) and any(isinstance(b, ast.Raise) for b in st.body) and edge_implies(st.test, False, need) for st in own_nodes(g.node))
                if checked:
                    r8.ok({"inflate": "decompressobj with `eof` required"})
                else:
                    r8.fail(f"{g.short}:inflate-not-to-the-end", g.loc(n), "the fragment set is inflated with a decompressobj without requiring `eof` on every normal path: the stream's checksum is only verified at its end, so a set stitched from fragments of two versions of a schedule (same length) inflates 'successfully' and is returned as the controller's schedule")
    out.append(r8)
    return out


def _always_raises(body: list[ast.stmt]) -> bool:
    if not body:
        return False
    last = body[-1]
    if isinstance(last, ast.Raise):
        return True
    if isinstance(last, ast.If) and last.orelse:
        return _always_raises(last.body) and _always_raises(last.orelse)
    return False
