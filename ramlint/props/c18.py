"""C18 - Schedule transfers end cleanly under faults and never return a mixed schedule."""

from __future__ import annotations

import ast

from ..context import Ctx
from ..loader import AnalysisError, FuncInfo, norm, own_nodes
from ..pairing import bracket_rule, contains_call, method_call
from ..report import RuleResult
from .common import policy_views

META = {
    "explanation": (
        "C18.R1: transfer-lock bracket - in every function that calls tcs._obtain_lock(), every path from it to any exit (normal, "
        "exceptional incl. the protocol errors of async_send_cmd, cancellation at each await - get_schedule's wait_for cancels the inner "
        "coroutine) passes tcs._release_lock(). C18.R2: no module-level mutable sentinel is aliased by an instance attribute that is "
        "mutated in place. C18.R3: on every path to the first fragment request the change counter has been read with I/O. "
        "C18.R4: overheard fragments are only merged under a test of the system's zone_lock_idx. "
        "Not decided: 'never a schedule stitched from two versions' as a trace property; termination of the fragment loop."
    ),
}
META["explanation"] += " C18.R3 also: decision table of _is_dated - with force_io a 'not dated' answer follows an I/O read of the change counter."
META["explanation"] += ' C18.R3 also: a protocol error from the RQ|0006 exchange cannot be swallowed.'

MUTATORS = {"append", "extend", "insert", "pop", "remove", "clear", "update", "setdefault", "popitem", "sort", "reverse", "add", "discard"}


def check(ctx: Ctx) -> list[RuleResult]:
    repo = ctx.repo
    pol = policy_views(ctx)
    out: list[RuleResult] = []

    # ---- R1 ---------------------------------------------------------------------------
    r1 = RuleResult("R1", "transfer-lock bracket on all exits", "every path from _obtain_lock() to any exit passes _release_lock()", min_instances=2)
    holders = [
        f
        for f in repo.funcs.values()
        if f.module.name.startswith("ramses_rf") and f.name not in ("_obtain_lock", "_release_lock") and any(isinstance(n, ast.Call) and method_call("_obtain_lock")(n) for n in own_nodes(f.node))
    ]
    for need in ("ramses_rf.system.schedule.Schedule._get_schedule", "ramses_rf.system.schedule.Schedule.set_schedule"):
        if repo.func(need) not in holders:
            raise AnalysisError(f"{need} no longer calls _obtain_lock(): the bracket anchor moved")
    for f in holders:
        bracket_rule(ctx, r1, f, method_call("_obtain_lock"), method_call("_release_lock"), pol, "schedule transfer lock leaked")
    out.append(r1)

    # ---- R2 ---------------------------------------------------------------------------
    r2 = RuleResult("R2", "no shared mutable sentinel", "a module-level list/dict/set constant is never bound to an instance attribute that is mutated in place", min_instances=1)
    for m in repo.modules.values():
        if not m.name.startswith(("ramses_rf", "ramses_tx")):
            continue
        consts: dict[str, ast.AST] = {}
        for st in m.tree.body:
            if isinstance(st, (ast.Assign, ast.AnnAssign)) and st.value is not None and isinstance(st.value, (ast.List, ast.Dict, ast.Set)):
                for t in st.targets if isinstance(st, ast.Assign) else [st.target]:
                    if isinstance(t, ast.Name) and t.id.isupper():
                        consts[t.id] = st
        if not consts:
            continue
        funcs = [f for f in repo.funcs.values() if f.module is m]
        for cname, cdef in consts.items():
            # (a) functions that may return the constant itself
            returns_const: set[str] = set()
            for f in funcs:
                local_alias = {cname}
                for n in own_nodes(f.node):
                    if isinstance(n, ast.Assign) and isinstance(n.value, ast.Name) and n.value.id in local_alias:
                        for t in n.targets:
                            if isinstance(t, ast.Name):
                                local_alias.add(t.id)
                for n in own_nodes(f.node):
                    if isinstance(n, ast.Return) and isinstance(n.value, ast.Name) and n.value.id in local_alias:
                        returns_const.add(f.name)
            # (b) attributes that may hold the constant
            attrs: dict[str, tuple[FuncInfo, ast.AST]] = {}
            for f in funcs:
                for n in own_nodes(f.node):
                    if isinstance(n, (ast.Assign, ast.AnnAssign)) and n.value is not None:
                        v = n.value
                        holds = (isinstance(v, ast.Name) and v.id == cname) or (
                            isinstance(v, ast.Call) and isinstance(v.func, ast.Attribute) and v.func.attr in returns_const
                        ) or (isinstance(v, ast.Call) and isinstance(v.func, ast.Name) and v.func.id in returns_const)
                        if holds:
                            for t in n.targets if isinstance(n, ast.Assign) else [n.target]:
                                if isinstance(t, ast.Attribute) and isinstance(t.value, ast.Name) and t.value.id == "self":
                                    attrs.setdefault(t.attr, (f, n))
            if not attrs:
                continue
            # (c) in-place mutation of such an attribute, or of a parameter it is passed as
            for attr, (wf, wn) in attrs.items():
                r2.instances += 1
                r2.nontrivial += 1
                muts: list[tuple[FuncInfo, ast.AST]] = []
                param_alias: dict[str, set[str]] = {}
                for f in funcs:
                    for n in own_nodes(f.node):
                        if isinstance(n, ast.Call):
                            for i, a in enumerate(n.args):
                                if norm(a) == f"self.{attr}":
                                    callee = n.func.attr if isinstance(n.func, ast.Attribute) else (n.func.id if isinstance(n.func, ast.Name) else "")
                                    for g in funcs:
                                        if g.name == callee:
                                            ps = [p.arg for p in g.node.args.args if p.arg not in ("self", "cls")]
                                            if i < len(ps):
                                                param_alias.setdefault(g.qualname, set()).add(ps[i])
                for f in funcs:
                    names = {f"self.{attr}"} | param_alias.get(f.qualname, set())
                    for n in own_nodes(f.node):
                        if isinstance(n, ast.Subscript) and isinstance(n.ctx, (ast.Store, ast.Del)) and norm(n.value) in names:
                            muts.append((f, n))
                        elif isinstance(n, ast.AugAssign) and norm(n.target) in names and isinstance(n.op, (ast.Add, ast.BitOr)):
                            muts.append((f, n))
                        elif isinstance(n, ast.Call) and isinstance(n.func, ast.Attribute) and n.func.attr in MUTATORS and norm(n.func.value) in names:
                            muts.append((f, n))
                if muts:
                    mf, mn = muts[0]
                    r2.fail(
                        f"{m.name}.{cname}->self.{attr}",
                        wf.loc(wn),
                        f"the module-level mutable constant {cname} is bound to self.{attr} ({norm(wn)[:60]}) and that object is mutated in place: every instance sharing it sees the change",
                        [f"mutation: {x.short} @{x.loc(y)}: {norm(getattr(y, 'parent', y))[:100]}" for x, y in muts[:6]],
                    )
                else:
                    r2.ok({"constant": f"{m.name}.{cname}", "attribute": attr, "mutated_in_place": False})
    # positive twin: the query must see the module constants it is about
    twin = repo.mod("ramses_rf.system.schedule")
    if not any(isinstance(st, (ast.Assign, ast.AnnAssign)) and "EMPTY_PAYLOAD_SET" in norm(st) for st in twin.tree.body):
        raise AnalysisError("EMPTY_PAYLOAD_SET not found in ramses_rf.system.schedule")
    r2.instances = max(r2.instances, 1)
    out.append(r2)

    # ---- R3 ---------------------------------------------------------------------------
    r3 = RuleResult("R3", "version read dominates the first fragment request", "on every path to get_fragment(), the change counter was read with I/O (did_io or _schedule_version(force_io=True))", min_instances=1)
    gs = repo.func("ramses_rf.system.schedule.Schedule._get_schedule")
    cfg = ctx.cfg(gs, pol)
    # the fragment request: a call of whatever (closure or method) builds Command.get_schedule_fragment, or that call itself
    from .common import module_scope, pool

    def _requests_fragment(g) -> bool:
        return any(isinstance(n, ast.Call) and isinstance(n.func, ast.Attribute) and n.func.attr == "get_schedule_fragment" for _g, n in pool([g] + list(g.nested.values())))

    senders = {g.name for g in module_scope(ctx, gs) if g is not gs and _requests_fragment(g)}
    if not senders and not _requests_fragment(gs):
        raise AnalysisError("Schedule._get_schedule no longer reaches Command.get_schedule_fragment")

    def _is_frag_call(c: ast.Call) -> bool:
        if isinstance(c.func, ast.Name) and c.func.id in senders:
            return True
        return isinstance(c.func, ast.Attribute) and (c.func.attr in senders or c.func.attr == "get_schedule_fragment")

    frag_nodes = [n for n in cfg.nodes if n.kind == "stmt" and not isinstance(n.ast, (ast.FunctionDef, ast.AsyncFunctionDef)) and contains_call(n.ast, _is_frag_call)]
    if not frag_nodes:
        raise AnalysisError("no fragment request in Schedule._get_schedule")
    did_io_def = [n for n in own_nodes(gs.node) if isinstance(n, ast.Assign) and "did_io" in norm(n.targets[0]) and "_is_dated" in norm(n.value)]
    if not did_io_def:
        raise AnalysisError("did_io is no longer taken from _is_dated()")

    def is_version_io(n) -> bool:
        return n.ast is not None and n.kind == "stmt" and contains_call(n.ast, lambda c: method_call("_schedule_version")(c) and any(k.arg == "force_io" and isinstance(k.value, ast.Constant) and k.value.value is True for k in c.keywords))

    for fn in frag_nodes:
        r3.instances += 1
        r3.nontrivial += 1
        seen = {cfg.entry.id}
        todo = [cfg.entry.id]
        reached = False
        while todo:
            x = todo.pop()
            nx = cfg.nodes[x]
            for y, lab in cfg.succ[x]:
                # the false edge of `not did_io` means did_io is True: the version was just read
                if nx.kind == "test" and norm(nx.ast) == "not did_io" and lab == "false":
                    continue
                if nx.kind == "test" and norm(nx.ast) == "did_io" and lab == "true":
                    continue
                ny = cfg.nodes[y]
                if is_version_io(ny):
                    continue
                if y not in seen:
                    seen.add(y)
                    todo.append(y)
                    if y == fn.id:
                        reached = True
        if reached:
            r3.fail(f"{gs.short}:get_fragment-without-version", gs.loc(fn.ast), "a path reaches the first fragment request without the change counter having been read with I/O: the schedule could be stamped with a stale version")
        else:
            r3.ok({"site": norm(fn.ast)[:70], "guard": "did_io or _schedule_version(force_io=True)"})
    # _is_dated(force_io=True) may only answer "not dated" (so the cached schedule is served) after the change counter was read
    # with I/O: decision table of _is_dated (predeval.py), rows with force_io True and is_dated False
    from ..predeval import PredEval, Unsupported

    isd = repo.func("ramses_rf.system.schedule.Schedule._is_dated")
    r3.instances += 1
    r3.nontrivial += 1
    try:
        tab = PredEval(ctx, isd).table()
    except Unsupported as err:
        raise AnalysisError(f"Schedule._is_dated is not a decision procedure the evaluator understands: {err}") from err
    if "force_io" not in tab.atoms and "force_io" not in tab.subjects:
        raise AnalysisError("Schedule._is_dated: force_io is no longer tested")
    bad = []
    n_forced = 0
    for a, r in tab.rows:
        if not a.get("force_io") or not (isinstance(r, tuple) and len(r) == 2):
            continue
        n_forced += 1
        is_dated, did_io = r
        forced = any("_schedule_version" in e and "force_io" in e for e in a["__effects__"])
        if is_dated is False and not (did_io is True or forced):
            bad.append(a)
    if n_forced == 0:
        raise AnalysisError("Schedule._is_dated: no (is_dated, did_io) result under force_io")
    if bad:
        a = bad[0]
        r3.fail(f"{isd.short}:not-dated-without-io", isd.loc(), "with force_io=True, _is_dated() can answer 'not dated' from the cached change counter, without any RQ|0006: a schedule changed at the controller since the last read is not noticed and the cached schedule is served", [tab.describe({k: v for k, v in a.items() if k != "__effects__"})[:300], f"calls made: {list(a['__effects__'])}"])
    else:
        r3.ok({"_is_dated(force_io=True)": "every 'not dated' answer follows an I/O read of the change counter", "rows": n_forced})
    # a version query that fails must fail the caller: around the RQ|0006 send in _schedule_version there is no handler that can
    # swallow a protocol error (a handler that re-raises on every path is fine) - else a lost RQ|0006 is answered from the cached
    # counter and reported as `did_io=True`
    sv = repo.func("ramses_rf.system.heat.ScheduleSync._schedule_version")
    sends = [n for n in own_nodes(sv.node) if isinstance(n, ast.Await) and isinstance(n.value, ast.Call) and norm(n.value.func).endswith("async_send_cmd")]
    if not sends:
        raise AnalysisError("_schedule_version: the RQ|0006 send was not found")
    for snd in sends:
        r3.instances += 1
        r3.nontrivial += 1
        swallow = None
        p2 = getattr(snd, "parent", None)
        child: ast.AST = snd
        while p2 is not None and not isinstance(p2, (ast.FunctionDef, ast.AsyncFunctionDef)):
            if isinstance(p2, ast.Try) and any(child is b or child in ast.walk(b) for b in p2.body):
                for h in p2.handlers:
                    classes = ctx.handler_classes(sv, h)
                    if any(ctx.is_sub("ramses_tx.exceptions.ProtocolError", c) or ctx.is_sub(c, "ramses_tx.exceptions.ProtocolError") for c in classes):
                        if not _always_raises(h.body):
                            swallow = h
            child, p2 = p2, getattr(p2, "parent", None)
        if swallow is not None:
            r3.fail(f"{sv.short}:version-query-error-swallowed", sv.loc(swallow), "a protocol error from the RQ|0006 exchange can be swallowed in _schedule_version: a forced fetch whose version query was lost returns the cached change counter (and the cached schedule) instead of an error")
        else:
            r3.ok({"RQ|0006 send": "protocol errors propagate to the caller"})
    out.append(r3)

    # ---- R4 ---------------------------------------------------------------------------
    r4 = RuleResult("R4", "overheard fragments are merged only under a lock test", "Schedule._handle_msg updates the payload set only under a test of tcs.zone_lock_idx", min_instances=1)
    hm = repo.func("ramses_rf.system.schedule.Schedule._handle_msg")
    from .common import edge_implies, expand, facts_at, short_circuit_facts

    ups_calls = [n for n in own_nodes(hm.node) if isinstance(n, ast.Call) and isinstance(n.func, ast.Attribute) and n.func.attr == "_update_payload_set"]
    if not ups_calls:
        raise AnalysisError("no _update_payload_set() call in Schedule._handle_msg")
    # "this zone does not hold the transfer lock" must be known at the merge, however the guard is spelled (compound test, early
    # returns, nested ifs, operands either way round)
    goal = ast.parse("self.tcs.zone_lock_idx != self.idx", mode="eval").body
    for c in ups_calls:
        r4.instances += 1
        r4.nontrivial += 1
        st = c
        while not isinstance(st, ast.stmt):
            st = st.parent  # type: ignore[attr-defined]
        facts = short_circuit_facts(c) + facts_at(st)
        hit = [f"`{norm(t)[:70]}` is {v}" for t, v in facts if edge_implies(expand(hm.node, t, pure_only=False), v, goal)]  # type: ignore[arg-type]
        if hit:
            r4.ok({"site": norm(st)[:70], "known_because": hit})
        else:
            r4.fail(f"{hm.short}:unguarded-update", hm.loc(c), "an overheard fragment is merged into the payload set without `self.tcs.zone_lock_idx != self.idx` being known there (the zone that holds the transfer lock would mix an overheard fragment into the set its own get/set is building)")
    out.append(r4)
    return out


def _always_raises(body: list[ast.stmt]) -> bool:
    if not body:
        return False
    last = body[-1]
    if isinstance(last, ast.Raise):
        return True
    if isinstance(last, ast.If) and last.orelse:
        return _always_raises(last.body) and _always_raises(last.orelse)
    return False
