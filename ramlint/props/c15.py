"""C15 - The schema is always well-formed, re-loadable and structurally consistent."""

from __future__ import annotations

import ast
from typing import Any

from ..consteval import TOP
from ..context import Ctx
from ..loader import AnalysisError, FuncInfo, Module, norm, own_nodes
from ..report import RuleResult
from ..rx import Lit, included, regex_dfa, shape_dfa

META = {
    "explanation": (
        "C15.R1 topology fields have guarded writers - Child._parent/_child_id/ctl/tcs are written only in constructors and Child.set_parent, "
        "there only after _get_parent() and the controller-change check; Zone._sensor, DhwZone._dhw_sensor/_dhw_valve/_htg_valve and "
        "System._app_cntrl are written only in constructors, in Parent._add_child under an 'already set and different => raise "
        "SystemSchemaInconsistent' test, or from gwy.get_device(..., parent=self) (which goes through set_parent). "
        "C15.R2 produced keys ⊆ accepted keys - the literal keys of the dicts built by Gateway/System/Zone/DhwZone.schema are keys the "
        "corresponding PREVENT_EXTRA validators accept. C15.R3 index domains agree - every zone idx f'{i:02X}' for i < max(max_zones), with "
        "the max_zones range folded from the config validator, is in the language of SCH_ZON_IDX and within SCH_TCS_ZONES' Length bound; "
        "Zone.__init__ refuses idx >= max_zones and duplicates before registering; zone_factory is the only Zone constructor site. "
        "C15.R4 duplicate guards - Gateway._add_device refuses a duplicate id. "
        "Not decided: that a re-loaded schema reproduces the same objects (execution)."
    ),
}
META["explanation"] += ' C15.R1 also: the child records the bond only after the parent accepted it; role fields are never cleared outside constructors. C15.R5: a role admitted without any type test is reported under a key that accepts every device id.'

EB = "ramses_rf.entity_base"
SC = "ramses_rf.schemas"



def _add_family(repo: Any, add: FuncInfo) -> set[str]:
    """Methods of _add_child's class that only _add_child calls, handing them the child under the same name (self.h(child, ...)):
    a role assignment there is part of _add_child (its change check is looked for in the same way)."""
    cached = getattr(repo, "_c15_add_family", None)
    if cached is not None:
        return cached
    cls_q = add.qualname.rsplit(".", 1)[0]
    fam: set[str] = set()
    for n in own_nodes(add.node):
        if isinstance(n, ast.Call) and isinstance(n.func, ast.Attribute) and norm(n.func.value) == "self":
            h = repo.funcs.get(f"{cls_q}.{n.func.attr}")
            if h is None:
                continue
            params = [a.arg for a in h.node.args.args][1:]
            if not any(norm(a) == "child" and i < len(params) and params[i] == "child" for i, a in enumerate(n.args)) and not any(k.arg == "child" and norm(k.value) == "child" for k in n.keywords):
                continue
            others = [g for g in repo.funcs.values() if g is not add and g is not h and any(isinstance(c, ast.Call) and isinstance(c.func, ast.Attribute) and c.func.attr == h.name for c in ast.walk(g.node))]
            if not others:
                fam.add(h.qualname)
    try:
        repo._c15_add_family = fam
    except Exception:  # noqa: BLE001
        pass
    return fam

def vol_literal_keys(ctx: Ctx, m: Module, name: str) -> tuple[set[str], list[str], str | None]:
    """(literal keys, pattern keys, extra policy) of a vol.Schema({...}) / dict display bound to `name`."""
    val = None
    for st in m.tree.body:
        if isinstance(st, ast.Assign) and any(isinstance(t, ast.Name) and t.id == name for t in st.targets):
            val = st.value
    if val is None:
        raise AnalysisError(f"{m.name}.{name} not found")
    extra = None
    d = val
    if isinstance(val, ast.Call) and norm(val.func) == "vol.Schema":
        d = val.args[0]
        for k in val.keywords:
            if k.arg == "extra":
                extra = norm(k.value)
    if isinstance(d, ast.Name):
        return vol_literal_keys(ctx, m, d.id)[:2] + (extra,)
    if not isinstance(d, ast.Dict):
        raise AnalysisError(f"{m.name}.{name} is not a dict-based schema")
    lits: set[str] = set()
    pats: list[str] = []
    for k in d.keys:
        if k is None:
            continue
        key = k
        if isinstance(k, ast.Call) and norm(k.func) in ("vol.Optional", "vol.Required"):
            key = k.args[0]
        if isinstance(key, ast.Call) and norm(key.func) == "vol.Remove":
            key = key.args[0]
        try:
            v = ctx.consts.eval_in(m, key)
        except Exception:
            v = TOP
        if isinstance(v, str):
            lits.add(v)
        else:
            pats.append(norm(key))
    return lits, pats, extra


def produced_keys(ctx: Ctx, f: FuncInfo) -> dict[str, set[str]]:
    """Literal keys of dict displays / subscript stores in a schema property: {'' : top-level keys, parent-key: nested keys}."""
    out: dict[str, set[str]] = {"": set()}

    def fold(e: ast.expr) -> Any:
        try:
            return ctx.consts.eval_in(f, e)
        except Exception:
            return TOP

    for n in own_nodes(f.node):
        if isinstance(n, ast.Dict) and isinstance(getattr(n, "parent", None), (ast.Return, ast.Assign, ast.AnnAssign)):
            for k, v in zip(n.keys, n.values):
                if k is None:
                    continue
                kv = fold(k)
                if isinstance(kv, str):
                    out[""].add(kv)
                    if isinstance(v, ast.Dict):
                        for k2 in v.keys:
                            if k2 is not None and isinstance(fold(k2), str):
                                out.setdefault(kv, set()).add(fold(k2))
        elif isinstance(n, ast.Subscript) and isinstance(n.ctx, ast.Store):
            kv = fold(n.slice)
            if isinstance(n.value, ast.Name) and isinstance(kv, str):
                out[""].add(kv)
            elif isinstance(n.value, ast.Subscript) and isinstance(n.value.value, ast.Name):
                pk = fold(n.value.slice)
                if isinstance(pk, str) and isinstance(kv, str):
                    out.setdefault(pk, set()).add(kv)
    return out


def _is_ctl_check(fn_node: ast.AST, test: ast.expr) -> bool:
    """`test` is true exactly when the child already has a controller and it is not the offered one:
    `self.ctl and self.ctl is not <new>` however it is spelled (locals copy-propagated, operands either way round)."""
    from .common import edge_implies, expand

    t = expand(fn_node, test, pure_only=False)
    new = None
    for c in ast.walk(t):
        if isinstance(c, ast.Compare) and len(c.ops) == 1 and isinstance(c.ops[0], (ast.Is, ast.IsNot, ast.Eq, ast.NotEq)):
            sides = [c.left, c.comparators[0]]
            if any(norm(x) == "self.ctl" for x in sides):
                new = next((norm(x) for x in sides if norm(x) != "self.ctl"), None)
    if new is None:
        return False
    try:
        goal = ast.parse(f"self.ctl and self.ctl is not ({new})", mode="eval").body
    except SyntaxError:
        return False
    return edge_implies(goal, True, t) and edge_implies(t, True, goal)  # type: ignore[arg-type]


def _ctl_change_check(ctx: Ctx, sp, cfg, node) -> list:
    """Evidence that the controller-change check (raise SystemSchemaInconsistent) has been passed when `node` runs: inline in
    set_parent, or in a private method of the same class whose call dominates `node`."""
    out = []
    for st in own_nodes(sp.node):
        if isinstance(st, ast.If) and any(isinstance(b, ast.Raise) and "SystemSchemaInconsistent" in norm(b) for b in st.body) and _is_ctl_check(sp.node, st.test):
            for x in cfg.nodes:
                if x.kind == "test" and x.ast is st.test and cfg.edge_dominates(x, "false", node):
                    out.append(f"inline: {norm(st.test)[:60]}")
    for x in cfg.dominated_by(node, lambda y: y.kind == "stmt" and y.ast is not None and any(isinstance(c, ast.Call) and isinstance(c.func, ast.Attribute) and norm(c.func.value) == "self" for c in ast.walk(y.ast))):
        for c in ast.walk(x.ast):
            if isinstance(c, ast.Call) and isinstance(c.func, ast.Attribute) and norm(c.func.value) == "self" and sp.cls is not None:
                h = next((k.methods[c.func.attr] for k in sp.cls.mro if c.func.attr in k.methods), None)
                if h is None or h is sp:
                    continue
                for st in h.node.body:  # top level of the helper: every return of the helper lies behind it
                    if isinstance(st, ast.If) and any(isinstance(b, ast.Raise) and "SystemSchemaInconsistent" in norm(b) for b in st.body) and _is_ctl_check(h.node, st.test):
                        before = [s0 for s0 in h.node.body if s0.lineno < st.lineno]
                        if not any(isinstance(r, ast.Return) for s0 in before for r in ast.walk(s0)):
                            out.append(f"in self.{h.name}(): {norm(st.test)[:60]}")
    return out


def check(ctx: Ctx) -> list[RuleResult]:
    repo = ctx.repo
    out: list[RuleResult] = []
    sm = repo.mod(SC)

    # ---- R1 ---------------------------------------------------------------------------
    r1 = RuleResult("R1", "topology fields have guarded writers", "who may write _parent/ctl/tcs/_sensor/_dhw_*/_app_cntrl, and under which checks", min_instances=12)
    sp = repo.func(f"{EB}.Child.set_parent")
    add = repo.func(f"{EB}.Parent._add_child")
    fields_child = {"_parent", "_child_id", "ctl", "tcs"}
    fields_role = {"_sensor", "_dhw_sensor", "_dhw_valve", "_htg_valve", "_app_cntrl"}
    for f in repo.funcs.values():
        if not f.module.name.startswith("ramses_rf"):
            continue
        for n in own_nodes(f.node):
            if not (isinstance(n, (ast.Assign, ast.AnnAssign)) and n.value is not None):
                continue
            tgts = n.targets if isinstance(n, ast.Assign) else [n.target]
            for t in tgts:
                if not (isinstance(t, ast.Attribute) and isinstance(t.value, ast.Name) and t.value.id == "self"):
                    continue
                if t.attr in fields_child and f.cls is not None and any(c.name == "Child" for c in f.cls.mro) or (t.attr in fields_child and f is sp):
                    if t.attr in ("ctl", "tcs") and f.name == "__init__":
                        continue
                    # named exception: a Controller is the root of its own system - it creates its tcs once
                    top = f
                    while top.parent is not None:
                        top = top.parent
                    if t.attr == "tcs" and top.qualname == "ramses_rf.device.heat.Controller._make_tcs_controller":
                        r1.instances += 1
                        r1.nontrivial += 1
                        v = n.value
                        once = isinstance(getattr(n, "parent", None), ast.If) and norm(n.parent.test) == "not self.tcs"  # type: ignore[attr-defined]
                        via = isinstance(v, ast.Call) and norm(v.func) == "get_system"
                        if once or via:
                            r1.ok({"write": f"{f.short}: {norm(n)[:50]}", "why": "the controller's own system, created once (`if not self.tcs`)"})
                        else:
                            r1.fail(f"{f.short}:tcs-rebound", f.loc(n), "the controller's tcs is re-bound without the `if not self.tcs` guard")
                        continue
                    r1.instances += 1
                    r1.nontrivial += 1
                    if f.name == "__init__":
                        r1.ok({"write": f"{f.short}: {norm(n)[:50]}", "why": "constructor"})
                    elif f is sp:
                        cfg = ctx.plain_cfg(sp)
                        node = cfg.nodes_of(n)[0]
                        d1 = cfg.dominated_by(node, lambda x: x.kind == "stmt" and "self._get_parent(" in norm(x.ast))
                        d2 = _ctl_change_check(ctx, sp, cfg, node)
                        # the parent must have accepted the child (its _add_child() may refuse) before the child records the bond
                        d3 = cfg.dominated_by(node, lambda x: x.kind == "stmt" and any(isinstance(c, ast.Call) and isinstance(c.func, ast.Attribute) and c.func.attr == "_add_child" for c in ast.walk(x.ast)))
                        if d1 and d2 and not d3:
                            r1.fail(f"{f.short}:{norm(t)}:before-parent-accepts", f.loc(n), f"set_parent records {norm(t)} before parent._add_child() has accepted the child: a refused binding (e.g. a second sensor for a zone) leaves the child pointing at a parent that does not list it, and its next legitimate binding is then refused")
                        elif d1 and d2:
                            r1.ok({"write": f"{f.short}: {norm(n)[:50]}", "after": ["_get_parent()", "controller-change check", "parent._add_child()"]})
                        else:
                            r1.fail(f"{f.short}:{norm(t)}:unguarded", f.loc(n), f"set_parent writes {norm(t)} without both _get_parent() (parent-change check) and the controller-change check before it")
                    else:
                        r1.fail(f"{f.short}:writes:{norm(t)}", f.loc(n), f"{f.short} writes {norm(t)} outside a constructor / Child.set_parent: a device could be moved to another parent without the inconsistency being reported")
                elif t.attr in fields_role:
                    v = n.value
                    if isinstance(v, ast.Constant) and v.value is None and f.name == "__init__":
                        continue  # initialisation
                    r1.instances += 1
                    r1.nontrivial += 1
                    if isinstance(v, ast.Constant) and v.value is None:
                        r1.fail(f"{f.short}:{norm(t)}:cleared", f.loc(n), f"{f.short} clears {norm(t)} outside a constructor: the device that held the role stays bound to this parent (its own _parent/_child_id are untouched), so the next device offered for the role is accepted without the change being reported")
                        continue
                    if f is add or f.qualname in _add_family(repo, add):
                        par = getattr(n, "parent", None)
                        sibs = par.body if isinstance(par, ast.If) and n in par.body else []
                        guard = [s for s in sibs[: sibs.index(n)] if isinstance(s, ast.If) and any(isinstance(b, ast.Raise) and "SystemSchemaInconsistent" in norm(b) for b in s.body) and "is not child" in norm(s.test)] if sibs else []
                        alias_problem = None
                        if guard and norm(v) == "child":
                            # the change check must look at the field that is written: a *view* of it (a property) is only as good
                            # if it is a pure alias - a view that can answer None while the field is set lets a second device in
                            for cmp_ in ast.walk(guard[0].test):
                                if isinstance(cmp_, ast.Compare) and len(cmp_.ops) == 1 and isinstance(cmp_.ops[0], ast.IsNot) and norm(cmp_.comparators[0]) == "child" and isinstance(cmp_.left, ast.Attribute) and norm(cmp_.left.value) == "self" and cmp_.left.attr != t.attr:
                                    pname = cmp_.left.attr
                                    for ci in repo.classes.values():
                                        if not ci.module.name.startswith("ramses_rf"):
                                            continue
                                        pm = ci.methods.get(pname)
                                        if pm is None or not pm.is_property:
                                            continue
                                        writes_field = any(isinstance(x, ast.Attribute) and x.attr == t.attr for k in ci.mro for m in k.methods.values() for x in ast.walk(m.node)) or True
                                        body = [b for b in pm.node.body if not (isinstance(b, ast.Expr) and isinstance(b.value, ast.Constant) and isinstance(b.value.value, str))]
                                        pure = len(body) == 1 and isinstance(body[0], ast.Return) and body[0].value is not None and norm(body[0].value) == f"self.{t.attr}"
                                        reads_field = any(isinstance(x, ast.Attribute) and x.attr == t.attr for x in ast.walk(pm.node))
                                        if writes_field and reads_field and not pure:
                                            alias_problem = (pm, pname)
                        if alias_problem is not None:
                            pm, pname = alias_problem
                            r1.fail(f"{f.short}:{norm(t)}:change-check-on-a-view", pm.loc(), f"Parent._add_child's change check for {norm(t)} reads the property `{pname}`, and {pm.short} is not a pure alias of {norm(t)} (it can return something else, e.g. None for a sensor that is not 'present'): a zone that already has a sensor then accepts a second one without SystemSchemaInconsistent")
                        elif guard and norm(v) == "child":
                            r1.ok({"write": f"_add_child: {norm(n)}", "guard": norm(guard[0].test)[:60]})
                        else:
                            r1.fail(f"{f.short}:{norm(t)}:no-change-check", f.loc(n), f"Parent._add_child sets {norm(t)} without first raising SystemSchemaInconsistent when it is already set to a different device")
                    elif isinstance(v, ast.Call) and norm(v.func).endswith("get_device") and any(k.arg == "parent" and norm(k.value) == "self" for k in v.keywords):
                        r1.ok({"write": f"{f.short}: {norm(t)} = get_device(..., parent=self)", "why": "goes through set_parent/_add_child"})
                    elif isinstance(v, ast.Name):
                        # a local that was assigned from get_device(..., parent=self)
                        defs = [a.value for a in own_nodes(f.node) if isinstance(a, ast.Assign) and any(isinstance(x, ast.Name) and x.id == v.id for x in a.targets)]
                        if defs and all(isinstance(d, ast.Call) and norm(d.func).endswith("get_device") and any(k.arg == "parent" and norm(k.value) == "self" for k in d.keywords) for d in defs):
                            r1.ok({"write": f"{f.short}: {norm(n)[:50]}", "why": "local from get_device(..., parent=self)"})
                        else:
                            r1.fail(f"{f.short}:{norm(t)}:unchecked-source", f.loc(n), f"{f.short} sets {norm(t)} from `{norm(v)}`, which did not go through set_parent")
                    else:
                        r1.fail(f"{f.short}:{norm(t)}:unchecked-source", f.loc(n), f"{f.short} sets {norm(t)} from `{norm(v)[:40]}`, which did not go through set_parent")
    # the parent-change check itself: in _get_parent a top-level `raise SystemSchemaInconsistent` fires whenever the child already
    # has a parent and it is not the one offered - no further condition may excuse it (truth table over the test's atoms)
    from .common import edge_implies, expand as _expand

    gp = repo.func(f"{EB}.Child._get_parent")
    r1.instances += 1
    r1.nontrivial += 1
    premise = ast.parse("self._parent and self._parent != parent", mode="eval").body
    guards_gp = [st for st in gp.node.body if isinstance(st, ast.If) and any(isinstance(b, ast.Raise) and "SystemSchemaInconsistent" in norm(b) for b in st.body) and any(isinstance(x, ast.Attribute) and x.attr == "_parent" for x in ast.walk(_expand(gp.node, st.test)))]
    if not guards_gp:
        r1.fail(f"{gp.short}:no-parent-change-check", gp.loc(), "_get_parent no longer raises SystemSchemaInconsistent when the child already has a different parent")
    elif any(edge_implies(premise, True, _expand(gp.node, st.test)) for st in guards_gp):  # type: ignore[arg-type]
        r1.ok({"check": f"_get_parent: {norm(guards_gp[0].test)[:70]}", "fires_whenever": "self._parent and self._parent != parent"})
    else:
        r1.fail(f"{gp.short}:parent-change-check-weakened", gp.loc(guards_gp[0]), f"the parent-change check `{norm(guards_gp[0].test)[:90]}` no longer fires for every child that already has a different parent: some such child is silently moved/claimed by a second parent")
    out.append(r1)

    # ---- R2 ---------------------------------------------------------------------------
    r2 = RuleResult("R2", "produced keys ⊆ accepted keys", "literal keys built by the schema properties are accepted by the PREVENT_EXTRA validators", min_instances=5)
    tcs_keys, _p, ex_tcs = vol_literal_keys(ctx, sm, "SCH_TCS")
    sys_keys, _p, _e = vol_literal_keys(ctx, sm, "SCH_TCS_SYS")
    zon_keys, _p, _e = vol_literal_keys(ctx, sm, "SCH_TCS_ZONES_ZON")
    dhw_keys, _p, _e = vol_literal_keys(ctx, sm, "SCH_TCS_DHW")
    glob_keys, glob_pats, _e = vol_literal_keys(ctx, sm, "SCH_GLOBAL_SCHEMAS_DICT")
    table = [
        ("ramses_rf.system.zones.Zone.schema", "", zon_keys, "SCH_TCS_ZONES_ZON"),
        ("ramses_rf.system.zones.DhwZone.schema", "", dhw_keys, "SCH_TCS_DHW"),
        ("ramses_rf.system.heat.SystemBase.schema", "", tcs_keys, "SCH_TCS"),
        ("ramses_rf.system.heat.SystemBase.schema", "system", sys_keys, "SCH_TCS_SYS"),
        ("ramses_rf.system.heat.MultiZone.schema", "", tcs_keys, "SCH_TCS"),
        ("ramses_rf.system.heat.StoredHw.schema", "", tcs_keys, "SCH_TCS"),
        ("ramses_rf.system.heat.UfHeating.schema", "", tcs_keys, "SCH_TCS"),
        ("ramses_rf.gateway.Gateway.schema", "", glob_keys, "SCH_GLOBAL_SCHEMAS_DICT"),
    ]
    for qn, sub, accepted, vname in table:
        f = repo.func(qn)
        prod = produced_keys(ctx, f).get(sub, set())
        r2.instances += 1
        r2.nontrivial += 1
        if not prod:
            raise AnalysisError(f"{qn}: no literal keys found{' under ' + sub if sub else ''}")
        extra = prod - accepted
        if not extra:
            r2.ok({"producer": f.short + (f"[{sub}]" if sub else ""), "keys": sorted(prod), "validator": vname})
        else:
            r2.fail(f"{f.short}:{sub}:keys", f.loc(), f"{f.short} produces the key(s) {sorted(extra)} that {vname} (PREVENT_EXTRA) does not accept: the reported schema could not be fed back as configuration")
    out.append(r2)

    # ---- R3 ---------------------------------------------------------------------------
    r3 = RuleResult("R3", "index domains agree", "zone idx domain allowed by max_zones ⊆ the idx regex / Length bound of the schema validator", min_instances=4)
    # max_zones range from SCH_GATEWAY_DICT
    rng = None
    for st in sm.tree.body:
        if isinstance(st, ast.Assign) and norm(st.targets[0]) == "SCH_GATEWAY_DICT" and isinstance(st.value, ast.Dict):
            for k, v in zip(st.value.keys, st.value.values):
                if k is not None and "SZ_MAX_ZONES" in norm(k):
                    for c in ast.walk(v):
                        if isinstance(c, ast.Call) and norm(c.func) == "vol.Range":
                            kw = {x.arg: ctx.consts.eval_in(sm, x.value) for x in c.keywords}
                            rng = (kw.get("min"), kw.get("max"))
    if rng is None or not all(isinstance(x, int) for x in rng):
        raise AnalysisError("max_zones range not found in SCH_GATEWAY_DICT")
    zre = None
    length_max = None
    for st in sm.tree.body:
        if isinstance(st, ast.Assign) and norm(st.targets[0]) == "SCH_ZON_IDX":
            zre = ctx.consts.eval_in(sm, st.value.args[0])  # type: ignore[union-attr]
        if isinstance(st, ast.Assign) and norm(st.targets[0]) == "SCH_TCS_ZONES":
            for c in ast.walk(st.value):
                if isinstance(c, ast.Call) and norm(c.func) == "vol.Length":
                    kw = {x.arg: ctx.consts.eval_in(sm, x.value) for x in c.keywords}
                    length_max = kw.get("max")
    if not isinstance(zre, str) or not isinstance(length_max, int):
        raise AnalysisError("SCH_ZON_IDX / SCH_TCS_ZONES Length not found")
    d = regex_dfa(zre)
    rejected = [f"{i:02X}" for i in range(rng[1]) if included(shape_dfa(Lit(f"{i:02X}")), d) is not None]
    r3.instances += 1
    r3.nontrivial += 1
    if not rejected:
        r3.ok({"max_zones_range": rng, "SCH_ZON_IDX": zre})
    else:
        r3.fail("max_zones-vs-SCH_ZON_IDX", sm.rel, f"max_zones may be configured up to {rng[1]}, so zones {rejected[0]}..{rejected[-1]} can exist, but SCH_ZON_IDX ({zre}) rejects those ids: the reported schema would not validate")
    r3.instances += 1
    r3.nontrivial += 1
    if rng[1] <= length_max:
        r3.ok({"max_zones_max": rng[1], "SCH_TCS_ZONES.Length.max": length_max})
    else:
        r3.fail("max_zones-vs-Length", sm.rel, f"max_zones may be {rng[1]} but SCH_TCS_ZONES accepts at most {length_max} zones")
    zi = repo.func("ramses_rf.system.zones.Zone.__init__")
    r3.instances += 1
    r3.nontrivial += 1
    guards = [norm(n.test) for n in zi.node.body if isinstance(n, ast.If) and any(isinstance(b, ast.Raise) for b in n.body)]
    sup = [i for i, n in enumerate(zi.node.body) if "super().__init__" in norm(n)]
    gi = [i for i, n in enumerate(zi.node.body) if isinstance(n, ast.If) and any(isinstance(b, ast.Raise) for b in n.body)]
    if any("int(zone_idx, 16) >= tcs._max_zones" in g for g in guards) and any("zone_idx in tcs.zone_by_idx" in g for g in guards) and sup and gi and max(gi) < sup[0]:
        r3.ok({"Zone.__init__": guards})
    else:
        r3.fail(f"{zi.short}:idx-guards", zi.loc(), f"Zone.__init__ no longer refuses an idx >= max_zones and a duplicate idx before registering itself: {guards}")
    r3.instances += 1
    r3.nontrivial += 1
    ctor_sites = []
    zone_classes = {c.fullname for c in repo.classes.values() if any(b.name == "Zone" for b in c.mro) and c.module.name == "ramses_rf.system.zones"}
    for f in repo.funcs.values():
        if not f.module.name.startswith("ramses_rf"):
            continue
        for s in ctx.cg.calls_in(f):
            if s.kind == "construct" and any(e in zone_classes for e in s.external):
                ctor_sites.append(f.short)
    if set(ctor_sites) <= {"system.zones.zone_factory", "system.zones.zone_factory.best_zon_class"} or not ctor_sites:
        r3.ok({"Zone_constructor_sites": sorted(set(ctor_sites)) or ["(via zone_factory's class lookup)"]})
    else:
        r3.fail("Zone:constructor-sites", repo.mod("ramses_rf.system.zones").rel, f"Zone classes are constructed outside zone_factory: {sorted(set(ctor_sites))}")
    out.append(r3)

    # ---- R4 ---------------------------------------------------------------------------
    r4 = RuleResult("R4", "duplicate guards", "Gateway._add_device refuses a duplicate id", min_instances=1)
    ad = repo.func("ramses_rf.gateway.Gateway._add_device")
    r4.instances += 1
    r4.nontrivial += 1
    first = ad.node.body[1] if isinstance(ad.node.body[0], ast.Expr) else ad.node.body[0]
    if isinstance(first, ast.If) and norm(first.test) == "dev.id in self.device_by_id" and any(isinstance(b, ast.Raise) for b in first.body):
        r4.ok({"_add_device": norm(first.test)})
    else:
        r4.fail(f"{ad.short}:duplicate", ad.loc(), "Gateway._add_device no longer refuses a device id that is already registered")
    out.append(r4)
    # ---- R5 ---------------------------------------------------------------------------
    # produced device ids ⊆ accepted device ids, where the topology code places *no* constraint on the device: a role branch of
    # Parent._add_child without any isinstance()/type test on the child admits every device, so the validator of the schema key
    # that reports this role must accept every well-formed device id (its regex language ⊇ DEVICE_ID_REGEX.ANY). Branches that do
    # constrain the child's class are not decided (which ids a class may have is configuration, not source).
    from .. import rx as _rx

    r5 = RuleResult("R5", "an unconstrained role is reported under a key that accepts any device id", "role branches of _add_child with no type test on the child vs the validator of the schema key the role is reported under", min_instances=1)
    role_key = {"_sensor": ("SCH_TCS_ZONES_ZON", "SZ_SENSOR"), "_dhw_sensor": ("SCH_TCS_DHW", "SZ_SENSOR"), "_dhw_valve": ("SCH_TCS_DHW", "SZ_DHW_VALVE"), "_htg_valve": ("SCH_TCS_DHW", "SZ_HTG_VALVE"), "_app_cntrl": ("SCH_TCS_SYS", "SZ_APPLIANCE_CONTROL")}
    _ns = ctx.const("ramses_tx.const", "DEVICE_ID_REGEX")
    _ns_attrs = getattr(_ns, "attrs", _ns if isinstance(_ns, dict) else {})
    any_pat = getattr(_ns_attrs.get("ANY"), "pattern", None)
    if not isinstance(any_pat, str):
        raise AnalysisError("DEVICE_ID_REGEX.ANY could not be folded")

    def branch_of(n: ast.AST) -> ast.If | None:
        p2 = getattr(n, "parent", None)
        while p2 is not None and not (isinstance(p2, ast.If) and n in ast.walk(p2) and any(n is x or n in ast.walk(x) for x in p2.body)):
            p2 = getattr(p2, "parent", None)
        return p2

    def validator_regex(schema_name: str, key_const: str) -> tuple[str | None, str]:
        """(regex pattern or None when the key accepts any id, text of the validator)."""
        val = None
        for st in sm.tree.body:
            if isinstance(st, ast.Assign) and any(isinstance(t, ast.Name) and t.id == schema_name for t in st.targets):
                val = st.value
        d = val.args[0] if isinstance(val, ast.Call) and norm(val.func) == "vol.Schema" and val.args else val
        if not isinstance(d, ast.Dict):
            raise AnalysisError(f"{schema_name} is not a dict-based schema")
        for k, v in zip(d.keys, d.values):
            key = k.args[0] if isinstance(k, ast.Call) and norm(k.func) in ("vol.Optional", "vol.Required") and k.args else k
            if key is not None and norm(key) == key_const:
                names = [x.id for x in ast.walk(v) if isinstance(x, ast.Name) and x.id.startswith("SCH_DEVICE_ID_")]
                if len(names) != 1:
                    raise AnalysisError(f"{schema_name}[{key_const}]: device-id validator not recognised ({norm(v)[:60]})")
                kind = names[0].rsplit("_", 1)[-1]
                return getattr(_ns_attrs.get(kind), "pattern", None), names[0]
        raise AnalysisError(f"{schema_name} has no key {key_const}")

    # the role assignments may live in _add_child itself or in a method of the same class that _add_child hands the child to
    # (self.helper(child, ...)); followed to depth 2, the helper's own name for the child is used inside it
    role_sites: list[tuple[Any, ast.AST, str]] = []
    todo: list[tuple[Any, str, int]] = [(add, "child", 0)]
    seen_fns: set[str] = set()
    while todo:
        fi, cname, depth = todo.pop()
        if fi.qualname in seen_fns:
            continue
        seen_fns.add(fi.qualname)
        for n in own_nodes(fi.node):
            if isinstance(n, ast.Assign) and len(n.targets) == 1 and isinstance(n.targets[0], ast.Attribute) and n.targets[0].attr in role_key and norm(n.value) == cname:
                role_sites.append((fi, n, cname))
            elif depth < 2 and isinstance(n, ast.Call) and isinstance(n.func, ast.Attribute) and norm(n.func.value) == "self":
                hq = f"{add.qualname.rsplit('.', 1)[0]}.{n.func.attr}"
                h = repo.funcs.get(hq)
                if h is None:
                    continue
                params = [a.arg for a in h.node.args.args][1:]
                for i, a in enumerate(n.args):
                    if norm(a) == cname and i < len(params):
                        todo.append((h, params[i], depth + 1))
                for kw in n.keywords:
                    if kw.arg and norm(kw.value) == cname:
                        todo.append((h, kw.arg, depth + 1))
    for fi, n, cname in role_sites:
        br = branch_of(n)
        if br is None:
            continue
        constrained = any(isinstance(c, ast.Call) and norm(c.func) == "isinstance" and c.args and norm(c.args[0]) == cname for st in br.body for c in ast.walk(st)) or any(isinstance(x, ast.Attribute) and norm(x) in (f"{cname}.type", f"{cname}._SLUG", f"{cname}.id") for st in br.body for x in ast.walk(st))
        r5.instances += 1
        attr = n.targets[0].attr
        sch_name, key_const = role_key[attr]
        if constrained:
            r5.ok({"role": attr, "child": "class-constrained in the topology code: not decided"})
            continue
        r5.nontrivial += 1
        pat, vname = validator_regex(sch_name, key_const)
        if pat is None:
            raise AnalysisError(f"{vname}: regex not folded")
        w = _rx.included(_rx.regex_dfa(any_pat), _rx.regex_dfa(pat))
        if w is None:
            r5.ok({"role": attr, "validator": vname, "accepts": "every well-formed device id"})
        else:
            r5.fail(f"{add.short}:{attr}:any-device-vs-{vname}", fi.loc(n), f"Parent._add_child accepts a device of any type as {attr[1:].replace('_', ' ')} (no type test in that branch), but the schema key it is reported under is validated by {vname} ({pat}), which rejects e.g. '{w}': the reported schema is then refused by the library's own validator")
    if r5.instances == 0:
        raise AnalysisError("Parent._add_child: no role assignment found")
    out.append(r5)

    # ---- R6 ---------------------------------------------------------------------------
    # "at every moment the schema the gateway reports ...": a schema view computes from the live topology. A view that remembers
    # its answer is only current if every writer of everything the answer was built from forgets it again (zone classes change by
    # `self.__class__ = ...`, sensors/actuators in _add_child, ...); anything less reports a schema that re-loads differently
    r6 = RuleResult("R6", "schema views are current", "no schema view is served from a memo unless every writer of its inputs resets the memo", min_instances=6)
    MUT = {"append", "remove", "clear", "pop", "extend", "insert", "update", "add", "discard", "setdefault", "popitem"}
    views = [f for f in repo.funcs.values() if f.module.name.startswith("ramses_rf") and f.name in ("schema", "_schema_min") and f.is_property and f.parent is None]
    if len(views) < 6:
        raise AnalysisError(f"only {len(views)} schema views found")

    def writers_of(attr: str) -> list:
        res = []
        for g in repo.funcs.values():
            if not g.module.name.startswith("ramses_rf") or g.name == "__init__":
                continue
            for x in own_nodes(g.node):
                hit = False
                if isinstance(x, ast.Attribute) and x.attr == attr and isinstance(x.ctx, (ast.Store, ast.Del)):
                    hit = True
                elif isinstance(x, ast.Call) and isinstance(x.func, ast.Attribute) and x.func.attr in MUT and isinstance(x.func.value, ast.Attribute) and x.func.value.attr == attr:
                    hit = True
                elif isinstance(x, ast.Subscript) and isinstance(x.ctx, (ast.Store, ast.Del)) and isinstance(x.value, ast.Attribute) and x.value.attr == attr:
                    hit = True
                if hit:
                    res.append((g, x))
                    break
        return res

    for v in views:
        r6.instances += 1
        r6.nontrivial += 1
        if any("cache" in d for d in v.decorators):
            r6.fail(f"{v.short}:cached", v.loc(), f"{v.short} is wrapped in a cache decorator: the schema reported would be the one of the first read")
            continue
        memo_writes = [x for x in own_nodes(v.node) if isinstance(x, (ast.Assign, ast.AnnAssign)) and any(isinstance(t, ast.Attribute) and isinstance(t.value, ast.Name) and t.value.id == "self" for t in (x.targets if isinstance(x, ast.Assign) else [x.target]))]
        if not memo_writes:
            r6.ok({"view": v.short, "memoised": False})
            continue
        problems = []
        for mw_ in memo_writes:
            memo = next(t.attr for t in (mw_.targets if isinstance(mw_, ast.Assign) else [mw_.target]) if isinstance(t, ast.Attribute))
            inputs: set[str] = set()
            for x in ast.walk(mw_.value):
                if isinstance(x, ast.Attribute) and isinstance(x.value, ast.Name) and x.value.id == "self" and x.attr != memo:
                    pm = next((k.methods[x.attr] for k in (v.cls.mro if v.cls else []) if x.attr in k.methods and k.methods[x.attr].is_property), None)
                    if pm is None:
                        inputs.add(x.attr)
                    else:
                        for y in own_nodes(pm.node):
                            if isinstance(y, ast.Attribute) and isinstance(y.value, ast.Name) and y.value.id == "self":
                                if y.attr.isupper() or y.attr.startswith("_") and y.attr[1:].isupper() or y.attr == "__class__":
                                    inputs.add("__class__")  # class-level data: changes when the object is re-classed
                                else:
                                    inputs.add(y.attr)
            for a in sorted(inputs):
                for g, x in writers_of(a):
                    resets = any(isinstance(z, ast.Assign) and any(isinstance(t, ast.Attribute) and t.attr == memo for t in z.targets) and isinstance(z.value, ast.Constant) and z.value.value is None for z in own_nodes(g.node))
                    if not resets and g is not v:
                        problems.append(f"{g.short} writes {a if a != '__class__' else 'the object class'} (`{norm(x)[:40]}`) without resetting {memo}")
        if problems:
            r6.fail(f"{v.short}:stale-memo", v.loc(memo_writes[0]), f"{v.short} serves a remembered answer that is not reset by every writer of what it was built from: {'; '.join(sorted(set(problems))[:3])}: after such a write the schema reported is no longer the topology, and re-loads into different zones")
        else:
            r6.ok({"view": v.short, "memoised": True, "reset_by_every_writer": True})
    out.append(r6)

    # ---- R7 ---------------------------------------------------------------------------
    # re-loadable: each role of a schema node is loaded independently of the others. A loader that walks a table of roles and leaves
    # the walk (break/return) when one role is empty never loads the roles after it: {hotwater_valve: X} without a sensor, ...
    r7 = RuleResult("R7", "schema loaders load every role independently", "no `_update_schema` leaves a loop over its table of roles because one role is absent", min_instances=3)
    loaders = [f for f in repo.funcs.values() if f.module.name.startswith("ramses_rf") and f.name in ("_update_schema", "load_schema", "load_tcs", "_load_schema") and f.parent is None]
    if len(loaders) < 3:
        raise AnalysisError(f"only {len(loaders)} schema loaders found")
    for f in loaders:
        r7.instances += 1
        r7.nontrivial += 1
        bad7 = []
        for lp in own_nodes(f.node):
            if isinstance(lp, ast.For) and isinstance(lp.iter, (ast.Tuple, ast.List)):
                for x in ast.walk(lp):
                    if isinstance(x, (ast.Break, ast.Return)) and x is not lp:
                        # inside a nested function? (own_nodes of f excludes them, ast.walk does not)
                        q = getattr(x, "parent", None)
                        inner = False
                        while q is not None and q is not lp:
                            if isinstance(q, (ast.FunctionDef, ast.AsyncFunctionDef, ast.Lambda)) or (isinstance(q, (ast.For, ast.While)) and isinstance(x, ast.Break)):
                                inner = True
                            q = getattr(q, "parent", None)
                        if not inner:
                            bad7.append(x)
        if bad7:
            r7.fail(f"{f.short}:role-walk-abandoned", f.loc(bad7[0]), f"{f.short} leaves its walk over the table of roles with `{norm(bad7[0])}`: when one role is absent from the schema the roles after it are never loaded, so a reported schema with (say) a valve but no sensor re-loads without the valve")
        else:
            r7.ok({"loader": f.short, "role_walks_abandoned": 0})
    out.append(r7)

    # ---- R8 ---------------------------------------------------------------------------
    # (i) every answer set_parent() gives has been through the parent-change check: a return that precedes _get_parent() ("already
    # bound, nothing to do") lets a second controller claim a device without SystemSchemaInconsistent being raised;
    # (ii) a zone handles its first message only once it is part of the system: the factory builds it, the system registers it, then
    # it is given the message. A factory that feeds the message to the zone first can leave - when that message is half refused - a
    # zone that owns devices but is in neither the system's zone list nor its schema
    r8 = RuleResult("R8", "no short cut past the parent-change check; zones are registered before they handle traffic", "every return of Child.set_parent is dominated by _get_parent(); zone factories do not dispatch messages", min_instances=2)
    cfg8 = ctx.plain_cfg(sp)
    gp8 = [x for x in cfg8.nodes if x.ast is not None and x.kind == "stmt" and any(isinstance(c, ast.Call) and isinstance(c.func, ast.Attribute) and c.func.attr == "_get_parent" for c in ast.walk(x.ast))]
    if not gp8:
        raise AnalysisError("Child.set_parent: the _get_parent() call was not found")
    dom8 = cfg8.dominators()
    for rn in [x for x in cfg8.nodes if x.kind == "stmt" and isinstance(x.ast, ast.Return)]:
        r8.instances += 1
        r8.nontrivial += 1
        if any(g8.id in dom8[rn.id] for g8 in gp8):
            r8.ok({"return": norm(rn.ast)[:40], "after": "_get_parent()"})
        else:
            r8.fail(f"{sp.short}:return-before-parent-check", sp.loc(rn.ast), f"`{norm(rn.ast)[:50]}` answers set_parent() before _get_parent() has compared the requested parent with the current one: a device already bound under one controller can be claimed by another (same domain id) without the inconsistency being reported, and both systems then list it")
    facs = [g for g in repo.funcs.values() if g.module.name.startswith("ramses_rf.system") and g.name.endswith("_factory") and g.parent is None]
    if not facs:
        raise AnalysisError("no zone/system factory found")
    for g in facs:
        r8.instances += 1
        r8.nontrivial += 1
        hm8 = [c for c in own_nodes(g.node) if isinstance(c, ast.Call) and isinstance(c.func, ast.Attribute) and c.func.attr in ("_handle_msg", "handle_msg")]
        if hm8:
            r8.fail(f"{g.short}:factory-dispatches-message", g.loc(hm8[0]), f"{g.short} hands a message to the entity it has just built (`{norm(hm8[0])[:50]}`), before its caller has registered the entity: if that message is refused part-way (a device already bound elsewhere) the half-initialised zone keeps the devices it accepted but is in neither the system's zone list nor the schema, and every later packet for that index is refused")
        else:
            r8.ok({"factory": g.short, "dispatches_messages": False})
    out.append(r8)
    return out
