"""C02 - Frame text round-trips: parse then print is the identity, through logs too."""

from __future__ import annotations

import ast
import re
from typing import Any

from ..context import Ctx
from ..loader import AnalysisError, FuncInfo, norm, own_nodes
from ..report import RuleResult

META = {
    "explanation": (
        "C02.R1 column/regex layout agreement - the column of every field is derived from COMMAND_REGEX (and MESSAGE_REGEX) by parsing the "
        "regex; every constant slice applied to frame text in the parse/validate/limiter/fault-log/address code must start and end on a field "
        "boundary of that layout and cover the field the code uses it as. C02.R2 log-line layout - the packet-log writer (asctime with "
        "microseconds + ' rssi frame') and its readers ([:26], [27:] in FileTransport._reader and Gateway.get_state; Packet.__repr__) agree on "
        "the widths. C02.R3 field-order agreement - Frame.__repr__ and Command._from_attrs join the fields in the order Frame.__init__ reads "
        "them, single-space separated, with len = f'{len(payload)/2:03d}'. C02.R4 annotation partition - the delimiters consumed by "
        "Packet._partition are the ones the logger emits, nested comment-outermost. "
        "Not decided: identity for every verb/seqn/address shape (values) - only that readers and writers agree on where each field is."
    ),
}
META["explanation"] += " C02.R1 also: a truncating slice on an assembled payload keeps the regex's maximum payload width. C02.R3 also: decision table of the seqn normalisation (only None/blank forms become '---'). C02.R5: _Logger.makeRecord mutates its `extra` mapping only after re-binding it to a copy."

_P = re._parser  # type: ignore[attr-defined]
_C = re._constants  # type: ignore[attr-defined]


def _width(items: Any) -> tuple[int, int | None]:
    lo, hi = 0, 0
    for op, av in items:
        if op in (_C.LITERAL, _C.NOT_LITERAL, _C.IN, _C.ANY):
            a, b = 1, 1
        elif op is _C.SUBPATTERN:
            a, b = _width(av[3])
        elif op is _C.BRANCH:
            ws = [_width(x) for x in av[1]]
            a = min(w[0] for w in ws)
            b = None if any(w[1] is None for w in ws) else max(w[1] for w in ws)  # type: ignore[type-var]
        elif op in (_C.MAX_REPEAT, _C.MIN_REPEAT):
            n, m, sub = av
            sa, sb = _width(sub)
            a = sa * n
            b = None if (m is _C.MAXREPEAT or sb is None) else sb * m
        elif op is _C.AT:
            a, b = 0, 0
        else:
            raise AnalysisError(f"unsupported regex token {op}")
        lo += a
        hi = None if hi is None or b is None else hi + b
    return lo, hi


def layout(pattern: str) -> list[tuple[int, int | None]]:
    """[(start, end)] of the space-separated fields of a fixed-column regex (the last field may be open-ended)."""
    items = list(_P.parse(pattern))
    fields: list[tuple[int, int | None]] = []
    cur: list[Any] = []
    pos = 0
    for tok in items:
        op, av = tok
        if op is _C.LITERAL and av == 32:
            lo, hi = _width(cur)
            if lo != hi:
                raise AnalysisError("a non-final field of the frame regex is not fixed-width")
            fields.append((pos, pos + lo))
            pos += lo + 1
            cur = []
        else:
            cur.append(tok)
    lo, hi = _width(cur)
    fields.append((pos, None if hi is None or hi != lo else pos + lo))
    return fields


def const_slices(f: FuncInfo, base_pred) -> list[tuple[ast.Subscript, int | None, int | None]]:
    from .common import expand, xnorm

    out = []
    for n in own_nodes(f.node):
        # the sliced text may have been hoisted into a local first (`line = repr(pkt)`): the base is compared after copy propagation
        if isinstance(n, ast.Subscript) and isinstance(n.slice, ast.Slice) and (base_pred(norm(n.value)) or base_pred(xnorm(f.node, n.value)) or base_pred(norm(expand(f.node, n.value, pure_only=False)))):
            lo = n.slice.lower.value if isinstance(n.slice.lower, ast.Constant) else (None if n.slice.lower is None else "?")
            hi = n.slice.upper.value if isinstance(n.slice.upper, ast.Constant) else (None if n.slice.upper is None else "?")
            if "?" not in (lo, hi):
                out.append((n, lo, hi))  # type: ignore[arg-type]
    return out


def _xn(f: FuncInfo, e: ast.AST) -> str:
    from .common import xnorm

    return xnorm(f.node, e)


def check(ctx: Ctx) -> list[RuleResult]:
    repo = ctx.repo
    out: list[RuleResult] = []
    cre = ctx.const("ramses_tx.const", "COMMAND_REGEX").pattern
    mre = ctx.const("ramses_tx.const", "MESSAGE_REGEX").pattern
    cl = layout(cre)
    ml = layout(mre)
    names = ["verb", "seqn", "addr0", "addr1", "addr2", "code", "len", "payload"]
    if len(cl) != 8 or len(ml) != 9:
        raise AnalysisError(f"COMMAND_REGEX has {len(cl)} fields, MESSAGE_REGEX {len(ml)}")
    col = dict(zip(names, cl))

    # ---- R1 ---------------------------------------------------------------------------
    r1 = RuleResult("R1", "column/regex layout agreement", "every constant slice of frame text coincides with the field boundaries derived from COMMAND_REGEX", min_instances=9)
    starts = {s for s, _ in cl}
    ends = {e for _, e in cl if e is not None}
    # (function, base expression, expected field span) - the field the code uses the slice as
    uses = [
        ("ramses_tx.frame.Frame.__init__", "frame", (col["verb"][0], col["verb"][1]), "verb"),
        ("ramses_tx.frame.Frame._validate", "self._frame", (col["payload"][0], None), "payload"),
        ("ramses_tx.frame.Frame._validate", "self._frame", col["len"], "len"),
        ("ramses_tx.frame.Frame._validate", "self._frame", (col["addr0"][0], col["addr2"][1]), "addr0..addr2"),
        ("ramses_tx.transport.limit_duty_cycle.decorator.wrapper", "frame", (col["payload"][0], None), "payload"),
        ("ramses_rf.system.faultlog.FaultLog._hack_pkt_idx", "pkt._frame", (None, col["payload"][0] + 4), "payload[:4] prefix"),
        ("ramses_rf.system.faultlog.FaultLog._hack_pkt_idx", "pkt._frame", (col["payload"][0] + 6, None), "payload[6:] suffix"),
    ]
    by_func: dict[str, list[tuple[str, tuple, str]]] = {}
    for qn, base, span, what in uses:
        by_func.setdefault(qn, []).append((base, span, what))
    for qn, lst in by_func.items():
        f = repo.func(qn)
        found = const_slices(f, lambda b, lst=lst: any(b == x[0] for x in lst))
        spans = {(lo or 0 if lo is not None else None, hi) for _n, lo, hi in found}
        spans_norm = {((lo if lo is not None else None), hi) for _n, lo, hi in found}
        for base, span, what in lst:
            r1.instances += 1
            r1.nontrivial += 1
            want = span
            hit = [n for n, lo, hi in found if norm(n.value) == base and ((lo or 0) if want[0] is not None or lo is not None else None, hi) in {((want[0] or 0) if want[0] is not None else None, want[1]), (want[0], want[1])}]
            hit = [n for n, lo, hi in found if base in (norm(n.value), _xn(f, n.value)) and (lo or 0) == (want[0] or 0) and hi == want[1]]
            if hit:
                r1.ok({"site": f"{f.short}: {norm(hit[0])}", "field": what, "columns": [want[0], want[1]]})
            else:
                have = sorted({norm(n) for n, lo, hi in found if base in (norm(n.value), _xn(f, n.value))})
                r1.fail(f"{f.short}:{base}:{what}", f.loc(), f"{f.short} reads the {what} field with {have}, but COMMAND_REGEX puts it at columns {want[0]}:{want[1]}")
        # any other constant slice of the frame text in this function must still sit on field boundaries
        for n, lo, hi in found:
            if not any((lo or 0) == (w[1][0] or 0) and hi == w[1][1] for w in lst):
                r1.instances += 1
                r1.nontrivial += 1
                ok = (lo is None or lo in starts or lo == 0) and (hi is None or hi in ends)
                if ok:
                    r1.ok({"site": f"{f.short}: {norm(n)}", "on_field_boundaries": True})
                else:
                    r1.fail(f"{f.short}:{norm(n)}:off-boundary", f.loc(n), f"`{norm(n)}` cuts the frame text off a field boundary (fields start at {sorted(starts)}, end at {sorted(ends)})")
    # Packet.__init__: rssi + space precede the frame (MESSAGE_REGEX)
    pi = repo.func("ramses_tx.packet.Packet.__init__")
    rssi = ml[0]
    for want, what in (((rssi[1] + 1, None), "frame after 'rssi '"), ((0, rssi[1]), "rssi")):
        r1.instances += 1
        r1.nontrivial += 1
        found = const_slices(pi, lambda b: b == "frame")
        hit = [n for n, lo, hi in found if (lo or 0) == want[0] and hi == want[1]]
        if hit:
            r1.ok({"site": f"{pi.short}: {norm(hit[0])}", "field": what})
        else:
            r1.fail(f"{pi.short}:{what}", pi.loc(), f"Packet.__init__ takes the {what} with {[norm(n) for n, _, _ in found]}, but MESSAGE_REGEX puts it at {want[0]}:{want[1]}")
    # pkt_addrs: three 9-char addresses every 10 columns
    pa = repo.func("ramses_tx.address.pkt_addrs")
    r1.instances += 1
    r1.nontrivial += 1
    rng = [n for n in own_nodes(pa.node) if isinstance(n, ast.Call) and norm(n.func) == "range" and len(n.args) == 3]
    sl = [n for n in own_nodes(pa.node) if isinstance(n, ast.Subscript) and norm(n.value) == "addr_fragment" and isinstance(n.slice, ast.Slice)]
    aw = col["addr0"][1] - col["addr0"][0]
    step = col["addr1"][0] - col["addr0"][0]
    total = col["addr2"][1] - col["addr0"][0] + 1
    if rng and sl and [ctx.consts.eval_in(pa, a) for a in rng[0].args] == [0, total, step] and norm(sl[0].slice.upper) == f"i + {aw}":
        r1.ok({"pkt_addrs": f"range(0, {total}, {step}) x [i:i+{aw}]"})
    else:
        r1.fail(f"{pa.short}:address-columns", pa.loc(), f"pkt_addrs no longer cuts three {aw}-char addresses every {step} columns")
    r1.info = {"layout": dict(zip(names, cl))}
    # a truncating slice on the payload of a frame being assembled must keep every legal payload: >= the regex's maximum width
    pay_items: list[Any] = []
    for tok in reversed(list(_P.parse(cre))):
        if tok[0] is _C.LITERAL and tok[1] == 32:
            break
        pay_items.insert(0, tok)
    pay_max = _width(pay_items)[1]
    fc = repo.func("ramses_tx.command.Command.from_cli")
    trunc = [n for n in own_nodes(fc.node) if isinstance(n, ast.Assign) and len(n.targets) == 1 and norm(n.targets[0]) == "payload"]
    if not trunc or pay_max is None:
        raise AnalysisError("Command.from_cli: the payload part / the regex's payload width was not found")
    for n in trunc:
        r1.instances += 1
        r1.nontrivial += 1
        v = n.value
        if isinstance(v, ast.Subscript) and isinstance(v.slice, ast.Slice):
            hi = v.slice.upper.value if isinstance(v.slice.upper, ast.Constant) else None
            lo = v.slice.lower
            if lo is None and isinstance(hi, int) and hi >= pay_max:
                r1.ok({"site": f"{fc.short}: {norm(n)}", "keeps": f"{hi} >= {pay_max} hex characters (the regex's maximum payload)"})
            else:
                r1.fail(f"{fc.short}:payload-truncated", fc.loc(n), f"`{norm(n)}` cuts the payload to {hi} characters, but COMMAND_REGEX allows payloads of up to {pay_max} hex characters ({pay_max // 2} bytes): a longer legal payload is silently shortened into a different frame")
        else:
            r1.ok({"site": f"{fc.short}: {norm(n)}", "keeps": "the whole payload part"})
    out.append(r1)

    # ---- R2 ---------------------------------------------------------------------------
    r2 = RuleResult("R2", "log-line layout agreement", "writer (asctime + ' rssi frame') and readers agree on widths", min_instances=5)
    L = "ramses_tx.logger"
    fmt = ctx.const(L, "PKT_LOG_FMT")
    r2.instances += 1
    r2.nontrivial += 1
    if fmt == "%(asctime)s%(frame)s":
        r2.ok({"PKT_LOG_FMT": fmt})
    else:
        r2.fail("logger.PKT_LOG_FMT", repo.mod(L).rel, f"PKT_LOG_FMT is {fmt!r}: the replayer expects the timestamp immediately followed by ' rssi frame'")
    fm = repo.cls(f"{L}._Formatter")
    tf = ctx.consts.eval_in(repo.mod(L), fm.class_attr("default_time_format"))
    prec = ctx.consts.eval_in(repo.mod(L), fm.class_attr("precision"))
    widths = {"%Y": 4, "%m": 2, "%d": 2, "%H": 2, "%M": 2, "%S": 2, "%f": 6}
    w = 0
    i = 0
    while i < len(tf):
        if tf[i] == "%":
            w += widths[tf[i : i + 2]]
            i += 2
        else:
            w += 1
            i += 1
    if prec is not None and -1 <= (prec or -1) < 6:
        w += (prec or -1) - 6
    r2.instances += 1
    r2.nontrivial += 1
    ts_w = w
    if ts_w == 26:
        r2.ok({"asctime_width": ts_w, "format": tf, "precision": prec})
    else:
        r2.fail("logger._Formatter:width", repo.mod(L).rel, f"the log timestamp is {ts_w} characters wide ({tf!r}, precision {prec}); the readers slice [:26]/[27:]")
    mk = repo.func(f"{L}._Logger.makeRecord")
    r2.instances += 1
    r2.nontrivial += 1
    def _is_frame_field(n: ast.AST) -> bool:
        if not isinstance(n, ast.JoinedStr) or len(n.values) != 4:
            return False
        a, b, c, d = n.values
        return isinstance(a, ast.Constant) and a.value == " " and isinstance(c, ast.Constant) and c.value == " " and isinstance(b, ast.FormattedValue) and "_rssi" in norm(b.value) and isinstance(d, ast.FormattedValue) and "frame" in norm(d.value)

    from .common import str_template

    def _tmpl_is_frame_field(n: ast.AST) -> bool:
        if not (isinstance(n, (ast.JoinedStr, ast.BinOp)) or (isinstance(n, ast.Call) and isinstance(n.func, ast.Attribute) and n.func.attr in ("format", "join"))):
            return False
        t = str_template(mk.node, n)
        return len(t) == 4 and t[0] == ("lit", " ") and t[2] == ("lit", " ") and t[1][0] == "var" and "_rssi" in t[1][1] and t[3][0] == "var" and "frame" in t[3][1]

    if any(_is_frame_field(n) or _tmpl_is_frame_field(n) for n in own_nodes(mk.node)):
        r2.ok({"frame_field": "' ' + rssi + ' ' + frame"})
    else:
        r2.fail(f"{mk.short}:frame-field", mk.loc(), "the logged frame field is no longer ' <rssi> <frame>' (one separator after the timestamp)")
    for qn, base in (("ramses_tx.transport.FileTransport._reader", "dtm_pkt_line"), ("ramses_rf.gateway.Gateway.get_state", "repr(msg._pkt)")):
        f = repo.func(qn)
        found = const_slices(f, lambda b, base=base: b == base)
        for want in ((0, ts_w), (ts_w + 1, None)):
            r2.instances += 1
            r2.nontrivial += 1
            hit = [n for n, lo, hi in found if (lo or 0) == want[0] and hi == want[1]]
            if hit:
                r2.ok({"reader": f"{f.short}: {norm(hit[0])}"})
            else:
                r2.fail(f"{f.short}:{base}:{want}", f.loc(), f"{f.short} splits a log line with {sorted({norm(n) for n, _, _ in found})}; the writer puts the timestamp at 0:{ts_w} and the packet at {ts_w + 1}:")
    rp = repo.func("ramses_tx.packet.Packet.__repr__")
    r2.instances += 1
    r2.nontrivial += 1
    txt = norm(rp.node)
    # the text __repr__ returns, however it is assembled: <dtm> ' ... ' <self> <hdr>
    rets = [n.value for n in own_nodes(rp.node) if isinstance(n, ast.Return) and n.value is not None]
    tmpls = [str_template(rp.node, v) for v in rets]
    def _repr_shape(t: list) -> bool:
        return len(t) == 4 and t[0][0] == "var" and t[1] == ("lit", " ... ") and t[2] == ("var", "self") and t[3][0] == "var"
    if "isoformat(timespec='microseconds')" in txt and tmpls and all(_repr_shape(t) for t in tmpls):
        r2.ok({"Packet.__repr__": "isoformat(microseconds) + ' ... ' + frame"})
    else:
        r2.fail(f"{rp.short}:format", rp.loc(), "Packet.__repr__ is no longer '<26-char timestamp> <3-char rssi placeholder> <frame>'")
    # the readers cut the timestamp at a fixed column, so every writer of packet/log text prints all 26 characters: isoformat() with
    # no timespec drops the '.000000' of a packet that arrived on a whole second, and that line is mis-split on replay
    iso_sites = [(g, n) for g in repo.funcs.values() if g.module.name in ("ramses_tx.logger", "ramses_tx.packet") for n in own_nodes(g.node) if isinstance(n, ast.Call) and isinstance(n.func, ast.Attribute) and n.func.attr == "isoformat"]
    r2.instances += 1
    r2.nontrivial += 1
    short_iso = [(g, n) for g, n in iso_sites if not any(k.arg == "timespec" and isinstance(k.value, ast.Constant) and k.value.value == "microseconds" for k in n.keywords) and not (n.args and any(isinstance(k, ast.keyword) for k in n.keywords))]
    short_iso = [(g, n) for g, n in short_iso if not any(k.arg == "timespec" and isinstance(k.value, ast.Constant) and k.value.value == "microseconds" for k in n.keywords)]
    if short_iso:
        g, n = short_iso[0]
        r2.fail(f"{g.short}:isoformat-without-microseconds", g.loc(n), f"`{norm(n)[:60]}` in {g.short} prints a timestamp without `timespec='microseconds'`: a packet dated on a whole second is written with a 19-character timestamp, and the replayer's fixed [:26]/[27:] split then cuts that line in the wrong place (the packet is dropped on replay)")
    else:
        r2.ok({"isoformat_sites_in_logger_and_packet": len(iso_sites), "all_with_microseconds": True})
    out.append(r2)

    # ---- R3 ---------------------------------------------------------------------------
    r3 = RuleResult("R3", "field-order agreement", "printers join the fields in the order the parser reads them", min_instances=3)
    fi = repo.func("ramses_tx.frame.Frame.__init__")
    read: dict[str, int] = {}
    from .common import expand

    for n in own_nodes(fi.node):
        if isinstance(n, (ast.Assign, ast.AnnAssign)) and n.value is not None:
            tgt = n.targets[0] if isinstance(n, ast.Assign) else n.target
            if not (isinstance(tgt, ast.Attribute) and isinstance(tgt.value, ast.Name) and tgt.value.id == "self"):
                continue
            v = expand(fi.node, n.value)  # `self.len_ = len_field` with `len_field = fields[6]` reads field 6
            if isinstance(v, ast.Subscript) and norm(v.value) == "fields" and isinstance(v.slice, ast.Constant):
                read[tgt.attr] = v.slice.value
    r3.instances += 1
    r3.nontrivial += 1
    exp = {"seqn": 1, "code": 5, "len_": 6, "payload": 7}
    split_ok = any(norm(n) == "frame.lstrip().split(' ')" for n in own_nodes(fi.node))
    if read == exp and split_ok:
        r3.ok({"Frame.__init__": read})
    else:
        r3.fail(f"{fi.short}:field-indexes", fi.loc(), f"Frame.__init__ reads {read} from frame.split(' '); the frame regex has seqn/code/len/payload as fields 1/5/6/7")
    fr = repo.func("ramses_tx.frame.Frame.__repr__")
    r3.instances += 1
    r3.nontrivial += 1
    # the text it builds (join, f-string, + or format alike): verb seqn <the addresses> code len payload, single-space separated
    rets_fr = [n.value for n in own_nodes(fr.node) if isinstance(n, ast.Return) and n.value is not None]
    # a memoised repr: the returned attribute's (non-None) definitions in this function are what is built
    built = []
    for v in rets_fr:
        if isinstance(v, ast.Attribute):
            defs_ = [a.value for a in own_nodes(fr.node) if isinstance(a, ast.Assign) and any(norm(t) == norm(v) for t in a.targets) and not (isinstance(a.value, ast.Constant) and a.value.value is None)]
            built += defs_ or [v]
        else:
            built.append(v)
    tpls = [str_template(fr.node, expand(fr.node, v, pure_only=False)) for v in built]
    def _repr_order_ok(t: list) -> bool:
        vs = [v for k, v in t if k == "var"]
        ls = [v for k, v in t if k == "lit"]
        return len(vs) >= 6 and vs[:2] == ["self.verb", "self.seqn"] and vs[-3:] == ["self.code", "self.len_", "self.payload"] and all("_addrs" in v for v in vs[2:-3]) and all(x == " " for x in ls) and len(ls) == len(vs) - 1
    order = [[v for k, v in t if k == "var"] for t in tpls]
    if tpls and all(_repr_order_ok(t) for t in tpls):
        r3.ok({"Frame.__repr__": order[0]})
    else:
        r3.fail(f"{fr.short}:join-order", fr.loc(), f"Frame.__repr__ no longer builds 'verb seqn <addresses> code len payload' separated by single spaces: {order}")
    fa = repo.func("ramses_tx.command.Command._from_attrs")
    r3.instances += 1
    r3.nontrivial += 1
    joins = [n for n in own_nodes(fa.node) if isinstance(n, ast.Call) and isinstance(n.func, ast.Attribute) and n.func.attr == "join" and isinstance(n.func.value, ast.Constant) and n.args and isinstance(n.args[0], ast.Tuple) and len(n.args[0].elts) > 4]
    order = [norm(e) for e in joins[0].args[0].elts] if joins else []
    elts = list(joins[0].args[0].elts) if joins else []

    def _len_field_ok(e: ast.expr) -> bool:
        """f"{<len(payload) halved>:03d}": the value is evaluated for a few payload lengths by a tiny arithmetic evaluator."""
        if not (isinstance(e, ast.JoinedStr) and len(e.values) == 1 and isinstance(e.values[0], ast.FormattedValue)):
            return False
        fv = e.values[0]
        try:
            spec = ctx.consts.eval_in(fa, fv.format_spec) if fv.format_spec is not None else ""
        except Exception:
            return False
        if spec != "03d":
            return False

        def ev(x: ast.expr, n: int):
            if isinstance(x, ast.Constant) and isinstance(x.value, (int, float)):
                return x.value
            if isinstance(x, ast.Call) and norm(x.func) == "len" and len(x.args) == 1 and norm(x.args[0]) == "payload":
                return n
            if isinstance(x, ast.Call) and norm(x.func) in ("int", "round") and len(x.args) == 1:
                return int(ev(x.args[0], n))
            if isinstance(x, ast.BinOp):
                a, b = ev(x.left, n), ev(x.right, n)
                if isinstance(x.op, ast.Div):
                    return a / b
                if isinstance(x.op, ast.FloorDiv):
                    return a // b
                if isinstance(x.op, ast.RShift):
                    return a >> b
                if isinstance(x.op, ast.Mult):
                    return a * b
            raise ValueError(norm(x))

        try:
            return all(ev(fv.value, n) == n // 2 for n in (2, 4, 10, 96))
        except (ValueError, TypeError, ZeroDivisionError):
            return False

    shape_ok = (
        bool(joins)
        and joins[0].func.value.value == " "  # type: ignore[union-attr]
        and len(elts) == 6
        and [norm(elts[i]) for i in (0, 1, 3, 5)] == ["verb", "seqn", "code", "payload"]
        and isinstance(elts[2], ast.Starred)
        and "addrs" in norm(elts[2])
        and _len_field_ok(elts[4])
    )
    if shape_ok:
        r3.ok({"Command._from_attrs": order})
    else:
        r3.fail(f"{fa.short}:join-order", fa.loc(), f"Command._from_attrs assembles {order}: expected verb, seqn, 3 addresses, code, a 3-digit len = len(payload)/2, payload, single-space separated")
    # the "no sequence number" normalisation must not swallow a numeric 0 (seqn ranges over ---, 000-255): decision table of the
    # statements of _from_attrs that define seqn, over seqn in {None, 0, 7, '', '---', '000', other}
    r3.instances += 1
    r3.nontrivial += 1
    rel = [st for st in fa.node.body if isinstance(st, (ast.If, ast.Assign)) and any(isinstance(x, ast.Name) and x.id == "seqn" and isinstance(x.ctx, ast.Store) for x in ast.walk(st))]
    if not rel:
        raise AnalysisError("Command._from_attrs: the seqn normalisation was not found")
    synth = ast.FunctionDef(name="_seqn", args=ast.arguments(posonlyargs=[], args=[ast.arg(arg="seqn")], kwonlyargs=[], kw_defaults=[], defaults=[]), body=rel + [ast.Return(value=ast.Name(id="seqn", ctx=ast.Load()))], decorator_list=[], type_params=[])
    ast.fix_missing_locations(synth)
    from ..loader import FuncInfo as _FI
    from ..predeval import PredEval, Unsupported

    try:
        tab = PredEval(ctx, _FI(fa.qualname + ".<seqn>", "_seqn", synth, fa.module, fa.cls, None), domains={"seqn": [None, 0, 7, "", "---", "000"]}).table()
    except Unsupported as err:
        raise AnalysisError(f"_from_attrs: seqn normalisation not understood: {err}") from err
    swallowed = [a for a, r in tab.rows if a.get("seqn") in (0, 7, "000") and a.get("seqn") is not None and r == "---" and not isinstance(a.get("seqn"), bool)]
    blanks = [a for a, r in tab.rows if (a.get("seqn") is None or a.get("seqn") in ("", "---")) and a.get("seqn") != 0 and r != "---"]
    if swallowed:
        r3.fail(f"{fa.short}:seqn-swallowed", fa.loc(rel[0]), f"a command built with seqn={swallowed[0]['seqn']!r} is printed with '---': the sequence number is not preserved")
    elif blanks:
        r3.fail(f"{fa.short}:seqn-blank", fa.loc(rel[0]), f"seqn={blanks[0]['seqn']!r} is no longer normalised to '---'")
    else:
        r3.ok({"seqn_normalisation": "None/''/'---' -> '---'; 0, 7, '000' are kept", "rows": len(tab.rows)})
    # the CLI short form: when all three address fields are given they are kept as given (position is information: `A --:------ B`
    # and `A B --:------` are different frames) - some definition of the address triple is the identity on the three parts
    fcl = repo.func("ramses_tx.command.Command.from_cli")
    r3.instances += 1
    r3.nontrivial += 1
    trip = [n for n in own_nodes(fcl.node) if isinstance(n, ast.Tuple) and len(n.elts) == 3 and all(isinstance(e, ast.Subscript) and isinstance(e.slice, ast.Constant) for e in n.elts)]
    ident = [n for n in trip if len({norm(e.value) for e in n.elts}) == 1 and [e.slice.value for e in n.elts] == [0, 1, 2]]
    any_trip = [n for n in own_nodes(fcl.node) if isinstance(n, ast.Tuple) and len(n.elts) == 3 and isinstance(getattr(n, "parent", None), ast.Assign)]
    if not any_trip:
        raise AnalysisError("Command.from_cli: the address triple was not found")
    if ident:
        r3.ok({"from_cli": f"three given addresses are kept in place: {norm(ident[0])}"})
    else:
        r3.fail(f"{fcl.short}:three-addresses-not-kept", fcl.loc(any_trip[0]), "Command.from_cli has no case that keeps three given address fields in their positions: a frame such as `A --:------ B` (A != B) is silently re-laid-out, so parsing the CLI form and printing it again is not the identity")
    out.append(r3)

    # ---- R4 ---------------------------------------------------------------------------
    r4 = RuleResult("R4", "annotation partition", "_partition consumes exactly the delimiters the logger emits, comment outermost", min_instances=2)
    pt = repo.func("ramses_tx.packet.Packet._partition")
    parts = [ctx.consts.eval_in(pt, n.args[0]) for n in own_nodes(pt.node) if isinstance(n, ast.Call) and isinstance(n.func, ast.Attribute) and n.func.attr == "partition"]
    seq = []
    for st in pt.node.body:
        for n in ast.walk(st):
            if isinstance(n, ast.Call) and isinstance(n.func, ast.Attribute) and n.func.attr == "partition":
                seq.append(n.args[0].value)  # type: ignore[attr-defined]
    # the annotation delimiters the logger writes: string constants ' # ', ' * ', ' < ' in makeRecord or the module-level helpers it
    # calls - whether spelled in an f-string, passed to str.format() or handed to a helper as an argument
    _mk_scope = [mk] + [c for site in ctx.cg.calls_in(mk) for c in site.callees if c.module is mk.module]
    emitted = sorted({c.value.strip() for g in _mk_scope for c in ast.walk(g.node) if isinstance(c, ast.Constant) and isinstance(c.value, str) and len(c.value) == 3 and c.value[0] == " " and c.value[2] == " " and c.value[1] in "#*<"})
    r4.instances += 1
    r4.nontrivial += 1
    if sorted(seq) == emitted == ["#", "*", "<"]:
        r4.ok({"consumed": seq, "emitted": emitted})
    else:
        r4.fail(f"{pt.short}:delimiters", pt.loc(), f"_partition splits on {seq} but the logger emits {emitted}")
    r4.instances += 1
    r4.nontrivial += 1
    if seq == ["#", "*", "<"]:
        r4.ok({"nesting": "comment (#) outermost, then error (*), then hint (<)"})
    else:
        r4.fail(f"{pt.short}:order", pt.loc(), f"_partition peels the annotations in the order {seq}; the writer appends '<' then '*' then '#', so '#' must be peeled first")
    out.append(r4)

    # ---- R5 ---------------------------------------------------------------------------
    # Packet._validate hands the logger `extra=self.__dict__`: the packet's own attribute dict. Whatever receives it must work on a
    # copy - a pop()/store on the mapping itself removes/changes attributes of the live packet (Frame.__eq__/__repr__ read them).
    r5 = RuleResult("R5", "logging a packet does not alter it", "every mutation of makeRecord's `extra` mapping is dominated by rebinding it to a fresh copy", min_instances=2)
    passes_dict = [n for g in repo.funcs.values() if g.module.name == "ramses_tx.packet" for n in own_nodes(g.node) if isinstance(n, ast.keyword) and n.arg == "extra" and norm(n.value) == "self.__dict__"]
    r5.info = {"call_sites_passing_self.__dict__": len(passes_dict)}
    cfgm = ctx.plain_cfg(mk)
    muts = []
    for x in cfgm.nodes:
        if x.ast is None or x.kind != "stmt":
            continue
        for n in ast.walk(x.ast):
            if isinstance(n, ast.Call) and isinstance(n.func, ast.Attribute) and isinstance(n.func.value, ast.Name) and n.func.value.id == "extra" and n.func.attr in ("pop", "update", "setdefault", "clear", "popitem", "__setitem__", "__delitem__"):
                muts.append((x, n))
            elif isinstance(n, ast.Subscript) and isinstance(n.value, ast.Name) and n.value.id == "extra" and isinstance(n.ctx, (ast.Store, ast.Del)):
                muts.append((x, n))
    copies = {x.id for x in cfgm.nodes if x.ast is not None and x.kind == "stmt" and isinstance(x.ast, ast.Assign) and len(x.ast.targets) == 1 and norm(x.ast.targets[0]) == "extra" and _is_fresh_mapping(x.ast.value)}
    domm = cfgm.dominators()
    if not passes_dict:
        r5.notes.append("no call site passes self.__dict__ as `extra` any more: the rule is vacuous and passes")
    for x, n in muts:
        r5.instances += 1
        r5.nontrivial += 1
        if not passes_dict or (copies & domm[x.id]):
            r5.ok({"mutation": norm(n)[:60], "on": "a fresh copy"})
        else:
            r5.fail(f"{mk.short}:mutates-extra:{norm(n)[:40]}", mk.loc(n), f"`{norm(n)[:60]}` can act on the caller's own mapping (Packet._validate passes self.__dict__): logging a packet then changes the packet (e.g. removes _frame, which Frame.__eq__ and __repr__ read)")
    # reader/writer agreement on the record's fields: whatever makeRecord reads from the mapping / the record (beyond logging's own
    # LogRecord attributes) must be an instance attribute the packet really has, else the read silently finds nothing (the log
    # line would e.g. carry the wall clock instead of the packet's timestamp)
    import logging as _logging

    std_attrs = set(_logging.LogRecord("", 0, "", 0, "", (), None).__dict__) | {"message", "asctime"}  # the interpreter's own class, not repository code
    pkt_attrs: set[str] = set()
    for qn in ("ramses_tx.packet.Packet.__init__", "ramses_tx.frame.Frame.__init__"):
        for n in own_nodes(repo.func(qn).node):
            if isinstance(n, ast.Attribute) and isinstance(n.value, ast.Name) and n.value.id == "self" and isinstance(n.ctx, ast.Store):
                pkt_attrs.add(n.attr)
    reads: list[tuple[ast.AST, str]] = []
    made = {"frame"}  # keys makeRecord itself creates
    for n in own_nodes(mk.node):
        if isinstance(n, ast.Subscript) and isinstance(n.value, ast.Name) and n.value.id == "extra" and isinstance(n.slice, ast.Constant) and isinstance(n.slice.value, str):
            if isinstance(n.ctx, ast.Store):
                made.add(n.slice.value)
            else:
                reads.append((n, n.slice.value))
        elif isinstance(n, ast.Call) and isinstance(n.func, ast.Attribute) and isinstance(n.func.value, ast.Name) and n.func.value.id == "extra" and n.func.attr in ("pop", "get") and n.args and isinstance(n.args[0], ast.Constant):
            reads.append((n, n.args[0].value))
        elif isinstance(n, ast.Call) and isinstance(n.func, ast.Name) and n.func.id in ("hasattr", "getattr") and len(n.args) >= 2 and norm(n.args[0]) == "rv" and isinstance(n.args[1], ast.Constant):
            reads.append((n, n.args[1].value))
        elif isinstance(n, ast.Attribute) and isinstance(n.value, ast.Name) and n.value.id == "rv" and isinstance(n.ctx, ast.Load):
            reads.append((n, n.attr))
    seen_keys: set[str] = set()
    for n, key in reads:
        if key in std_attrs or key in made or key in seen_keys:
            continue
        seen_keys.add(key)
        r5.instances += 1
        r5.nontrivial += 1
        if key in pkt_attrs or not passes_dict:
            r5.ok({"record_field": key, "provided_by": "Packet/Frame.__init__"})
        else:
            r5.fail(f"{mk.short}:reads-missing-field:{key}", mk.loc(n), f"_Logger.makeRecord reads `{key}` from the record, but a packet's __dict__ (what Packet._validate passes as `extra`) has no such attribute (it has {sorted(a for a in pkt_attrs if key.strip('_') in a)[:3]}): the branch never runs")
    if not muts:
        r5.instances += 1
        r5.ok({"mutations_of_extra": 0})
    # a packet's timestamp is written once, by its constructor: what is logged, what is keyed in a saved state and what is replayed
    # are the same instant (a later adjustment - "make it unique", "align to the clock" - makes the replayed packet differ from
    # the one that was delivered)
    r5.instances += 1
    r5.nontrivial += 1
    dw = [(g, n) for g in repo.funcs.values() if g.module.name.startswith(("ramses_tx", "ramses_rf")) for n in own_nodes(g.node) if isinstance(n, ast.Attribute) and n.attr == "_dtm" and isinstance(n.ctx, (ast.Store, ast.Del))]
    bad_dw = [(g, n) for g, n in dw if not (g.qualname == "ramses_tx.packet.Packet.__init__" and isinstance(n.value, ast.Name) and n.value.id == "self")]
    if not dw:
        raise AnalysisError("no write of Packet._dtm found")
    if bad_dw:
        g, n = bad_dw[0]
        r5.fail(f"{g.short}:packet-timestamp-rewritten", g.loc(n), f"{g.short} re-writes a packet's timestamp (`{norm(getattr(n, 'parent', n))[:60]}`): the packet delivered, the packet logged and the packet read back by the replayer no longer carry the same timestamp")
    else:
        r5.ok({"writers_of_Packet._dtm": [g.short for g, _ in dw]})
    # ...and a packet's log record is stamped with that timestamp whatever else is configured: the read of `<record>._dtm` is not
    # subordinate to another time source (a module-level clock hook tested first would stamp the line with the *previous* packet)
    for g in repo.funcs.values():
        if g.module.name != "ramses_tx.logger":
            continue
        for n in own_nodes(g.node):
            if isinstance(n, ast.Attribute) and n.attr == "_dtm" and isinstance(n.ctx, ast.Load):
                r5.instances += 1
                r5.nontrivial += 1
                st5 = n
                while not isinstance(st5, ast.stmt):
                    st5 = st5.parent  # type: ignore[attr-defined]
                from .common import facts_at as _fa5

                foreign = [t for t, _v in _fa5(st5) if "_dtm" not in norm(t).replace("_dtm_now", "") and "isinstance" not in norm(t)]
                if foreign:
                    r5.fail(f"{g.short}:packet-stamp-subordinate", g.loc(n), f"the packet's own timestamp is only used for its log record when `{norm(foreign[0])[:60]}` allows it: with that other time source configured (a replay that is being re-recorded) every line is stamped with the previous packet's time, so the log does not replay as the recorded session")
                else:
                    r5.ok({"stamp_from_packet": f"{g.short}: {norm(getattr(n, 'parent', n))[:40]}", "unconditional": True})
    # every packet that was delivered is written: the packet-log filters decide on the record's level alone - a filter with memory
    # (drop a line equal to the previous one, rate limits, sampling) makes the log a different session from the one that happened
    for fname in ("PktLogFilter",):
        fc = repo.classes.get(f"ramses_tx.logger.{fname}")
        if fc is None or "filter" not in fc.methods:
            raise AnalysisError(f"ramses_tx.logger.{fname}.filter not found")
        ff = fc.methods["filter"]
        r5.instances += 1
        r5.nontrivial += 1
        rec = [a.arg for a in ff.node.args.args if a.arg != "self"][0]
        reads5 = sorted({norm(x) for x in own_nodes(ff.node) if isinstance(x, ast.Attribute) and isinstance(x.value, ast.Name) and x.value.id in (rec, "self") and isinstance(x.ctx, ast.Load)} | {f"{rec}.{norm(c.args[1])}" for c in own_nodes(ff.node) if isinstance(c, ast.Call) and norm(c.func) == "getattr" and len(c.args) >= 2 and norm(c.args[0]) == rec} | {f"{rec}.{c.func.attr}()" for c in own_nodes(ff.node) if isinstance(c, ast.Call) and isinstance(c.func, ast.Attribute) and isinstance(c.func.value, ast.Name) and c.func.value.id == rec})
        state5 = [x for x in own_nodes(ff.node) if isinstance(x, ast.Attribute) and isinstance(x.value, ast.Name) and x.value.id == "self" and isinstance(x.ctx, ast.Store)]
        extra5 = [r for r in reads5 if r != f"{rec}.levelno"]
        if state5 or extra5:
            r5.fail(f"{ff.short}:filter-not-level-only", ff.loc((state5 or [ff.node])[0]), f"{ff.short} decides on {extra5 or 'remembered state'}{' and keeps state between records' if state5 else ''}, not on the record's level alone: some delivered packets are not written to the packet log, so the recorded session does not replay as the same message sequence")
        else:
            r5.ok({"filter": ff.short, "decides_on": reads5})
    out.append(r5)
    return out


def _is_fresh_mapping(v: ast.expr) -> bool:
    if isinstance(v, ast.Call) and norm(v.func) == "dict":
        return True
    if isinstance(v, ast.Call) and isinstance(v.func, ast.Attribute) and v.func.attr in ("copy", "deepcopy"):
        return True
    if isinstance(v, ast.Dict):
        return True
    if isinstance(v, ast.DictComp):
        return True
    return False
