"""E4 - call graph: per call site, the resolved callee set.

Resolution order: (1) closures / mypy-resolved names and methods via receiver type and
MRO, unions fan out, dispatch is virtual (T.m and every override below T);
(2) function-valued attributes via a declared points-to table; (3) class-hierarchy
fallback by method name for untyped receivers, flagged imprecise.
Property reads and a few dunder protocols (repr/str/f-string, ==, in) are call sites too.
Deferred edges (call_soon*, call_later, create_task, partial) are a separate kind.
"""

from __future__ import annotations

import ast
from dataclasses import dataclass, field

from .loader import ClassInfo, FuncInfo, Repo, own_nodes
from .typefacts import TypeFacts

DEFER_METHODS = {
    "call_soon": 0,
    "call_soon_threadsafe": 0,
    "call_later": 1,
    "call_at": 1,
    "add_done_callback": 0,
    "run_in_executor": 1,
}
TASK_METHODS = {"create_task", "ensure_future", "run_coroutine_threadsafe"}
AWAIT_WRAPPERS = {"wait_for", "shield", "gather", "wait", "timeout"}

# (2) function-valued attributes: attribute name -> candidate targets (qualnames), confirmed
# by reading every assignment to that attribute in the repository.
FUNC_ATTR_TARGETS: dict[str, list[str]] = {
    # ProtocolContext.send_cmd(send_fnc, ...) <- PortProtocol._send_cmd passes its closure
    "_send_fnc": ["ramses_tx.protocol.PortProtocol._send_cmd.send_cmd"],
    # _BaseProtocol._msg_handler <- Engine/Gateway._msg_handler (set in create_stack/Engine)
    "_msg_handler": [
        "ramses_tx.gateway.Engine._msg_handler",
        "ramses_rf.gateway.Gateway._msg_handler",
    ],
}


@dataclass(eq=False)
class CallSite:
    node: ast.AST  # ast.Call, or ast.Attribute (property read), or dunder site
    caller: FuncInfo
    callees: list[FuncInfo] = field(default_factory=list)
    external: list[str] = field(default_factory=list)  # dotted names of non-repo callees
    kind: str = "call"  # call | property | dunder | deferred | construct
    imprecise: bool = False
    unresolved: bool = False
    awaited: bool = True  # for coroutine callees: does the caller wait for it here?

    @property
    def text(self) -> str:
        try:
            return " ".join(ast.unparse(self.node).split())[:120]
        except Exception:
            return "?"

    @property
    def line(self) -> int:
        return getattr(self.node, "lineno", 0)


class CallGraph:
    def __init__(self, repo: Repo, tf: TypeFacts) -> None:
        self.repo = repo
        self.tf = tf
        self.sites: dict[FuncInfo, list[CallSite]] = {}
        self.site_of: dict[int, CallSite] = {}  # id(ast node) -> site
        self.callers: dict[FuncInfo, list[CallSite]] = {}
        self._name_index: dict[str, list[FuncInfo]] = {}
        for f in repo.funcs.values():
            if f.cls is not None and f.parent is None:
                self._name_index.setdefault(f.name, []).append(f)
        self.n_calls = self.n_resolved = self.n_external = self.n_imprecise = self.n_unresolved = 0
        self.abstract = self._abstract_classes()
        self.log_hooks = self._logging_hooks()
        for f in repo.funcs.values():
            self._scan(f)
        # module-level code (decorators etc.) is not a caller we need

    def _abstract_classes(self) -> set[ClassInfo]:
        """Rapid type analysis: a class with subclasses that is never constructed by name (K(...)), never returned by a
        factory as `cls`, and never the target of a `__class__ =` promotion is treated as abstract: a virtual call does not
        dispatch to a method *only* it would select."""
        constructed: set[str] = set()
        for m in self.repo.modules.values():
            for n in ast.walk(m.tree):
                if isinstance(n, ast.Call):
                    d = _dotted(n.func)
                    if d:
                        ref = self.repo.resolve(m, d)
                        if ref:
                            constructed.add(self.repo.canonical(ref))
                elif isinstance(n, ast.Assign) and any(isinstance(t, ast.Attribute) and t.attr == "__class__" for t in n.targets):
                    d = _dotted(n.value)
                    if d:
                        ref = self.repo.resolve(m, d)
                        if ref:
                            constructed.add(self.repo.canonical(ref))
                elif isinstance(n, (ast.Dict, ast.Tuple, ast.List, ast.Set)):
                    # classes stored in tables (class registries) may be constructed reflectively
                    for e in ast.walk(n):
                        if isinstance(e, (ast.Name, ast.Attribute)):
                            d = _dotted(e)
                            if d:
                                ref = self.repo.resolve(m, d)
                                if ref and self.repo.canonical(ref) in self.repo.classes:
                                    constructed.add(self.repo.canonical(ref))
        out: set[ClassInfo] = set()
        for ci in self.repo.classes.values():
            if ci.subclasses and ci.fullname not in constructed:
                out.add(ci)
        return out

    # -- public ------------------------------------------------------------------

    def calls_in(self, f: FuncInfo) -> list[CallSite]:
        return self.sites.get(f, [])

    def callers_of(self, f: FuncInfo) -> list[CallSite]:
        return self.callers.get(f, [])

    def reachable(self, roots: list[FuncInfo], follow_deferred: bool = False, stop=None) -> list[FuncInfo]:
        seen: list[FuncInfo] = []
        todo = list(roots)
        while todo:
            f = todo.pop()
            if f in seen:
                continue
            seen.append(f)
            for s in self.calls_in(f):
                if s.kind == "deferred" and not follow_deferred:
                    continue
                for c in s.callees:
                    if stop is not None and stop(c):
                        continue
                    todo.append(c)
        return seen

    # -- type helpers ---------------------------------------------------------------

    def atoms(self, f: FuncInfo, node: ast.AST) -> tuple[str, ...] | None:
        return self.tf.type_of(f.module.name, node)

    def classes_of(self, f: FuncInfo, node: ast.expr) -> tuple[list[ClassInfo], list[str], bool]:
        """Classes an expression may be an instance of: (repo classes, external, is_type_obj)."""
        at = self.atoms(f, node)
        if at is None:
            at = self._fallback_atoms(f, node)
        repo_cls: list[ClassInfo] = []
        ext: list[str] = []
        is_type = False
        for a in at or ():
            if a[:2] in ("I:", "T:"):
                if a[:2] == "T:":
                    is_type = True
                fn = a[2:]
                ci = self.repo.classes.get(fn)
                if ci is not None:
                    if ci not in repo_cls:
                        repo_cls.append(ci)
                else:
                    ext.append(fn)
            elif a == "Any" or a.startswith("O:"):
                ext.append(a)
        return repo_cls, ext, is_type

    def _fallback_atoms(self, f: FuncInfo, node: ast.expr) -> tuple[str, ...] | None:
        """No mypy type (unreachable-to-mypy blocks): use syntax + declared member types."""
        if isinstance(node, ast.Name):
            if node.id in ("self", "cls") and f.cls is not None:
                owner = f
                while owner.parent is not None:
                    owner = owner.parent
                if owner.cls is not None:
                    return (("I:" if node.id == "self" else "T:") + owner.cls.fullname,)
            # annotated parameter?
            fn: FuncInfo | None = f
            while fn is not None:
                for a in fn.node.args.posonlyargs + fn.node.args.args + fn.node.args.kwonlyargs:
                    if a.arg == node.id and a.annotation is not None:
                        tgt = self.repo.resolve(fn.module, ast.unparse(a.annotation).split("[")[0].split("|")[0].strip())
                        if tgt in self.repo.classes:
                            return ("I:" + tgt,)
                fn = fn.parent
            tgt = self.repo.resolve(f.module, node.id)
            if tgt in self.repo.classes:
                return ("T:" + tgt,)
            return None
        if isinstance(node, ast.Attribute):
            base = self.atoms(f, node.value) or self._fallback_atoms(f, node.value)
            out: list[str] = []
            for a in base or ():
                if a[:2] == "I:" and a[2:] in self.repo.classes:
                    for c in self.repo.classes[a[2:]].mro:
                        mem = self.tf.member(c.fullname, node.attr)
                        if mem is not None:
                            out.extend(mem[1] or ())
                            break
            return tuple(out) or None
        if isinstance(node, ast.Call):
            return None
        return None

    # -- scanning -------------------------------------------------------------------

    def _logging_hooks(self) -> list[FuncInfo]:
        """Repository code that the logging module runs synchronously inside every logging call, *outside* the handlers' own
        error fence (Handler.emit catches; record creation and filters do not): functions installed with
        logging.setLogRecordFactory(), makeRecord() of classes installed with logging.setLoggerClass(), filter() of the
        repository's logging.Filter subclasses. An exception they raise leaves the `_LOGGER.warning(...)` call itself."""
        hooks: list[FuncInfo] = []
        for f in self.repo.funcs.values():
            for n in own_nodes(f.node):
                if not (isinstance(n, ast.Call) and isinstance(n.func, ast.Attribute) and n.args):
                    continue
                if n.func.attr == "setLogRecordFactory" and isinstance(n.args[0], ast.Name):
                    g: FuncInfo | None = f
                    while g is not None:
                        if n.args[0].id in g.nested:
                            hooks.append(g.nested[n.args[0].id])
                            break
                        g = g.parent
                elif n.func.attr == "setLoggerClass" and isinstance(n.args[0], ast.Name):
                    tgt = self.repo.resolve(f.module, n.args[0].id)
                    ci = self.repo.classes.get(tgt) if tgt else None
                    if ci is not None and "makeRecord" in ci.methods:
                        hooks.append(ci.methods["makeRecord"])
        for ci in self.repo.classes.values():
            if any(str(b).endswith("logging.Filter") for k in ci.mro for b in k.ext_bases):
                if "filter" in ci.methods:
                    hooks.append(ci.methods["filter"])
        out: list[FuncInfo] = []
        for h in hooks:
            if h not in out:
                out.append(h)
        return out

    def _add(self, site: CallSite) -> None:
        self.sites.setdefault(site.caller, []).append(site)
        self.site_of[id(site.node)] = site
        for c in site.callees:
            self.callers.setdefault(c, []).append(site)
        if site.kind in ("call", "construct", "deferred"):
            self.n_calls += 1
            if site.callees:
                self.n_resolved += 1
            elif site.external and not site.unresolved:
                self.n_external += 1
            if site.imprecise:
                self.n_imprecise += 1
            if site.unresolved:
                self.n_unresolved += 1

    def _scan(self, f: FuncInfo) -> None:
        deferred_args: set[int] = set()
        for node in own_nodes(f.node):
            if isinstance(node, ast.Call):
                self._scan_call(f, node, deferred_args)
            elif isinstance(node, ast.Attribute) and isinstance(node.ctx, ast.Load):
                par = getattr(node, "parent", None)
                if isinstance(par, ast.Call) and par.func is node:
                    continue
                self._scan_property(f, node)
            elif isinstance(node, ast.JoinedStr):
                for v in node.values:
                    if isinstance(v, ast.FormattedValue):
                        self._scan_dunder(f, v.value, "__repr__" if v.conversion == ord("r") else "__str__", v)
            elif isinstance(node, ast.Compare):
                operands = [node.left] + node.comparators
                for i, op in enumerate(node.ops):
                    if isinstance(op, (ast.Eq, ast.NotEq)):
                        self._scan_dunder(f, operands[i], "__eq__", operands[i])
                    elif isinstance(op, (ast.In, ast.NotIn)):
                        self._scan_dunder(f, operands[i + 1], "__contains__", operands[i + 1])
                    elif isinstance(op, (ast.Lt, ast.Gt, ast.LtE, ast.GtE)):
                        self._scan_dunder(f, operands[i], "__lt__", operands[i])

    def _scan_dunder(self, f: FuncInfo, recv: ast.expr, name: str, key_node: ast.AST) -> None:
        if isinstance(recv, ast.Constant):
            return
        repo_cls, _ext, is_type = self.classes_of(f, recv)
        if is_type or not repo_cls:
            return
        callees: list[FuncInfo] = []
        for ci in repo_cls:
            for c in [ci] + ci.all_subclasses():
                m = c.find(name)
                if m is None and name == "__str__":
                    m = c.find("__repr__")
                if m is not None and m not in callees:
                    callees.append(m)
        if callees and id(key_node) not in self.site_of:
            self._add(CallSite(key_node, f, callees, kind="dunder"))

    def _scan_property(self, f: FuncInfo, node: ast.Attribute) -> None:
        repo_cls, _ext, is_type = self.classes_of(f, node.value)
        if is_type:
            return
        callees: list[FuncInfo] = []
        for ci in repo_cls:
            for c in [ci] + ci.all_subclasses():
                m = c.find(node.attr)
                if m is not None and m.is_property and m not in callees:
                    callees.append(m)
        if callees:
            self._add(CallSite(node, f, callees, kind="property"))

    def _methods(self, classes: list[ClassInfo], name: str, virtual: bool = True) -> list[FuncInfo]:
        out: list[FuncInfo] = []
        for ci in classes:
            cands = [ci] + (ci.all_subclasses() if virtual else [])
            concrete = [c for c in cands if c not in self.abstract] if virtual else cands
            for c in concrete or cands:
                m = c.find(name)
                if m is not None and m not in out:
                    out.append(m)
        return out

    def _ctor(self, ci: ClassInfo, virtual: bool = False) -> list[FuncInfo]:
        out = []
        for c in [ci] + (ci.all_subclasses() if virtual else []):
            for nm in ("__init__", "__new__", "__post_init__"):
                m = c.find(nm)
                if m is not None and m not in out:
                    out.append(m)
        return out

    def _closure(self, f: FuncInfo, name: str) -> FuncInfo | None:
        fn: FuncInfo | None = f
        while fn is not None:
            if name in fn.nested:
                return fn.nested[name]
            fn = fn.parent
        return None

    def resolve_callable(self, f: FuncInfo, func: ast.expr) -> tuple[list[FuncInfo], list[str], str, bool, bool]:
        """-> (callees, external, kind, imprecise, unresolved) for an expression being called/referenced."""
        repo = self.repo
        if isinstance(func, ast.Name):
            c = self._closure(f, func.id)
            if c is not None:
                return [c], [], "call", False, False
            ref = self.tf.ref_of(f.module.name, func)
            if ref and "." not in ref:
                ref = None  # a local variable / parameter (mypy reports its bare name)
            ref = ref or repo.resolve(f.module, func.id)
            if ref:
                ref = repo.canonical(ref)
                if ref in repo.funcs:
                    return [repo.funcs[ref]], [], "call", False, False
                if ref in repo.classes:
                    return self._ctor(repo.classes[ref]), [ref], "construct", False, False
                if not ref.startswith(("ramses_",)) or ref.split(".")[0] not in ("ramses_tx", "ramses_rf", "ramses_cli"):
                    return [], [ref], "call", False, False
            # a local bound once to a lookup in a module-level function table
            reg0 = self._registry_targets(f, func)
            if reg0 is not None:
                return reg0, [], "call", False, False
            # a local variable holding a class / function
            at = self.atoms(f, func) or ()
            callees: list[FuncInfo] = []
            ext: list[str] = []
            kind = "call"
            for a in at:
                if a[:2] == "T:":
                    kind = "construct"
                    if a[2:] in repo.classes:
                        callees += [m for m in self._ctor(repo.classes[a[2:]], virtual=(func.id == "cls")) if m not in callees]
                        ext.append(a[2:])
                    else:
                        ext.append(a[2:])
                elif a[:2] == "F:":
                    fn = repo.canonical(a[2:])
                    if fn in repo.funcs:
                        callees.append(repo.funcs[fn])
                    else:
                        ext.append(fn)
            if callees or ext:
                return callees, ext, kind, False, False
            if func.id in FUNC_ATTR_TARGETS:
                return [repo.funcs[q] for q in FUNC_ATTR_TARGETS[func.id] if q in repo.funcs], [], "call", True, False
            import builtins

            if hasattr(builtins, func.id):
                return [], ["builtins." + func.id], "call", False, False
            return [], [func.id], "call", False, True

        if isinstance(func, ast.Attribute):
            name = func.attr
            # super().m
            v = func.value
            if isinstance(v, ast.Call) and isinstance(v.func, ast.Name) and v.func.id == "super":
                owner = f
                while owner.parent is not None:
                    owner = owner.parent
                out: list[FuncInfo] = []
                ext: list[str] = []
                if owner.cls is not None:
                    for k in [owner.cls] + owner.cls.all_subclasses():
                        mro = k.mro
                        if owner.cls not in mro:
                            continue
                        found = False
                        for c in mro[mro.index(owner.cls) + 1 :]:
                            if name in c.methods:
                                if c.methods[name] not in out:
                                    out.append(c.methods[name])
                                found = True
                                break
                        if not found:
                            for c in mro:
                                for e in c.ext_bases:
                                    if e not in ("object",) and f"{e}.{name}" not in ext:
                                        ext.append(f"{e}.{name}")
                            if not ext:
                                ext.append(f"object.{name}")
                return out, ext, "call", False, False
            # module attribute / class attribute resolved by mypy
            ref = self.tf.ref_of(f.module.name, func)
            if not ref:
                dotted = _dotted(func)
                if dotted:
                    ref = repo.resolve(f.module, dotted)
            if ref:
                ref = repo.canonical(ref)
                if ref in repo.funcs:
                    fi = repo.funcs[ref]
                    if fi.cls is not None:  # Class.method referenced through the class: virtual on cls
                        return self._methods([fi.cls], name), [], "call", False, False
                    return [fi], [], "call", False, False
                if ref in repo.classes:
                    return self._ctor(repo.classes[ref]), [ref], "construct", False, False
                if ref.split(".")[0] not in ("ramses_tx", "ramses_rf", "ramses_cli"):
                    return [], [ref], "call", False, False
            repo_cls, ext, is_type = self.classes_of(f, v)
            if repo_cls:
                ms = self._methods(repo_cls, name)
                if ms:
                    return ms, [], "call", False, False
                # attribute holding a callable?
                if name in FUNC_ATTR_TARGETS:
                    return [repo.funcs[q] for q in FUNC_ATTR_TARGETS[name] if q in repo.funcs], [], "call", True, False
                exts = []
                for ci in repo_cls:
                    for c in ci.mro:
                        for e in c.ext_bases:
                            exts.append(f"{e}.{name}")
                # maybe a callable-typed attribute (type says so)
                at = self.atoms(f, func) or ()
                for a in at:
                    if a[:2] == "T:" and a[2:] in repo.classes:
                        return self._ctor(repo.classes[a[2:]], virtual=True), [a[2:]], "construct", False, False
                    if a[:2] == "F:" and repo.canonical(a[2:]) in repo.funcs:
                        return [repo.funcs[repo.canonical(a[2:])]], [], "call", False, False
                return [], exts or [f"{repo_cls[0].fullname}.{name}"], "call", False, not exts
            real_ext = [e for e in ext if e != "Any" and not e.startswith("O:")]
            if real_ext:
                return [], [f"{e}.{name}" for e in real_ext], "call", False, False
            if name in FUNC_ATTR_TARGETS:
                return [repo.funcs[q] for q in FUNC_ATTR_TARGETS[name] if q in repo.funcs], [], "call", True, False
            # (4) class-hierarchy fallback by name
            cands = [] if name in _EXTERNAL_METHOD_NAMES else self._name_index.get(name, [])
            if name in _EXTERNAL_METHOD_NAMES:
                return [], [f"?.{name}"], "call", False, False
            if cands:
                return list(cands), [], "call", True, False
            return [], [f"?.{name}"], "call", False, True

        # (3) registries: D.get(k, default)(...) / D[k](...) on a module-level function table
        reg = self._registry_targets(f, func)
        if reg is not None:
            return reg, [], "call", False, False

        # call of a call result / subscript etc.
        at = self.atoms(f, func) or ()
        callees = []
        ext = []
        for a in at:
            if a[:2] == "F:" and repo.canonical(a[2:]) in repo.funcs:
                callees.append(repo.funcs[repo.canonical(a[2:])])
            elif a[:2] == "T:" and a[2:] in repo.classes:
                callees += self._ctor(repo.classes[a[2:]], virtual=True)
            else:
                ext.append(a)
        return callees, ext, "call", False, not (callees or ext)

    def registry(self, module: str, name: str) -> list[FuncInfo] | None:
        """Functions stored in a module-level table: a dict display of function refs, or the
        `{... for k, v in locals().items() if k.startswith(P) and len(k) == N}` idiom."""
        m = self.repo.modules.get(module)
        if m is None:
            return None
        val = None
        for st in m.tree.body:
            if isinstance(st, (ast.Assign, ast.AnnAssign)) and st.value is not None:
                tgts = st.targets if isinstance(st, ast.Assign) else [st.target]
                if any(isinstance(t, ast.Name) and t.id == name for t in tgts):
                    val = st.value
        if val is None:
            return None
        if isinstance(val, ast.DictComp) and "locals()" in ast.unparse(val.generators[0].iter):
            prefix, length = None, None
            for c in val.generators[0].ifs:
                for n in ast.walk(c):
                    if isinstance(n, ast.Call) and isinstance(n.func, ast.Attribute) and n.func.attr == "startswith" and n.args and isinstance(n.args[0], ast.Constant):
                        prefix = n.args[0].value
                    if isinstance(n, ast.Compare) and isinstance(n.left, ast.Call) and ast.unparse(n.left.func) == "len" and isinstance(n.comparators[0], ast.Constant):
                        length = n.comparators[0].value
            if prefix is None:
                return None
            return [fi for nm, fi in m.funcs.items() if nm.startswith(prefix) and (length is None or len(nm) == length) and fi.node.lineno < val.lineno]
        if isinstance(val, ast.Dict):
            out: list[FuncInfo] = []
            for v in val.values:
                d = _dotted(v) if v is not None else None
                if not d:
                    return None
                ref = self.repo.resolve(m, d)
                if ref and self.repo.canonical(ref) in self.repo.funcs:
                    fi = self.repo.funcs[self.repo.canonical(ref)]
                    if fi not in out:
                        out.append(fi)
                else:
                    return None
            return out
        return None

    def _registry_targets(self, f: FuncInfo, func: ast.expr) -> list[FuncInfo] | None:
        cont = None
        default = None
        if isinstance(func, ast.Name):
            # a local bound once to a registry lookup: `parser = TABLE.get(code, default)` ... `parser(payload, msg)`
            defs = [n for n in own_nodes(f.node) if isinstance(n, (ast.Assign, ast.AnnAssign)) and n.value is not None and any(isinstance(t, ast.Name) and t.id == func.id for t in (n.targets if isinstance(n, ast.Assign) else [n.target]))]
            params = {a.arg for a in f.node.args.posonlyargs + f.node.args.args + f.node.args.kwonlyargs}
            if len(defs) == 1 and func.id not in params and isinstance(defs[0].value, (ast.Call, ast.Subscript)):
                return self._registry_targets(f, defs[0].value)
            return None
        if isinstance(func, ast.Call) and isinstance(func.func, ast.Attribute) and func.func.attr == "get":
            cont = func.func.value
            if len(func.args) > 1:
                default = func.args[1]
        elif isinstance(func, ast.Subscript):
            cont = func.value
        if cont is None:
            return None
        d = _dotted(cont)
        if not d:
            return None
        ref = self.repo.resolve(f.module, d)
        if not ref:
            return None
        mod, _, nm = self.repo.canonical(ref).rpartition(".")
        reg = self.registry(mod, nm)
        if reg is None:
            return None
        out = list(reg)
        if default is not None:
            cs, _e, _k, _i, _u = self.resolve_callable(f, default)
            out += [c for c in cs if c not in out]
        return out

    def decorator_wrappers(self, c: FuncInfo) -> list[FuncInfo]:
        """Closures of repo-defined decorators applied to c: they run when c is called."""
        out: list[FuncInfo] = []
        for d in c.node.decorator_list:
            fn = d.func if isinstance(d, ast.Call) else d
            dotted = _dotted(fn)
            if not dotted:
                continue
            ref = self.repo.resolve(c.module, dotted)
            if not ref:
                continue
            dec = self.repo.funcs.get(self.repo.canonical(ref))
            if dec is None:
                continue
            todo = list(dec.nested.values())
            while todo:
                w = todo.pop()
                if w not in out:
                    out.append(w)
                    todo.extend(w.nested.values())
        return out

    def _scan_call(self, f: FuncInfo, node: ast.Call, deferred_args: set[int]) -> None:
        callees, ext, kind, imprecise, unresolved = self.resolve_callable(f, node.func)
        for c in list(callees):
            if c.node.decorator_list:
                for w in self.decorator_wrappers(c):
                    if w not in callees and w is not f:
                        callees.append(w)
        if any(e in LOG_EMITTERS for e in ext):
            for h in self.log_hooks:
                if h not in callees and h is not f and (f.parent is None or f.parent is not h):
                    callees.append(h)
        site = CallSite(node, f, callees, ext, kind, imprecise, unresolved)
        # is a coroutine call awaited here?
        if any(c.is_async for c in callees):
            site.awaited = _is_awaited(node)
            if not site.awaited and _is_task_arg(node):
                site.kind = "deferred"
        self._add(site)
        # deferred targets passed by reference: loop.call_soon(fn, ...), partial(fn, ...)
        fname = node.func.attr if isinstance(node.func, ast.Attribute) else (node.func.id if isinstance(node.func, ast.Name) else "")
        if fname in DEFER_METHODS and len(node.args) > DEFER_METHODS[fname]:
            tgt = node.args[DEFER_METHODS[fname]]
            self._add_deferred_ref(f, tgt)
        elif fname == "partial" and node.args:
            # partial(fn, ...) : deferred unless immediately called; treat as deferred reference
            self._add_deferred_ref(f, node.args[0])

    def _add_deferred_ref(self, f: FuncInfo, tgt: ast.expr) -> None:
        if isinstance(tgt, ast.Call):  # functools.partial(fn, ...) nested
            fn = tgt.func
            nm = fn.attr if isinstance(fn, ast.Attribute) else (fn.id if isinstance(fn, ast.Name) else "")
            if nm == "partial" and tgt.args:
                return  # handled when that Call is scanned
            return
        if isinstance(tgt, ast.Lambda):
            return
        callees, ext, _kind, imprecise, unresolved = self.resolve_callable(f, tgt)
        if id(tgt) in self.site_of:
            return
        self._add(CallSite(tgt, f, callees, ext, "deferred", imprecise, unresolved, awaited=False))


LOG_EMITTERS = {f"logging.Logger.{m}" for m in ("debug", "info", "warning", "warn", "error", "exception", "critical", "log")} | {f"logging.{m}" for m in ("debug", "info", "warning", "warn", "error", "exception", "critical", "log")}


def _names_of(*types: type) -> set[str]:
    out: set[str] = set()
    for t in types:
        out |= {n for n in dir(t) if not n.startswith("__")}
    return out


import collections as _collections  # noqa: E402
import io as _io  # noqa: E402
import logging as _logging  # noqa: E402
import re as _re  # noqa: E402

# method names of builtin containers / str / bytes / io / logging / re: an untyped receiver
# calling one of these is an external call, never a repo method found "by name"
_EXTERNAL_METHOD_NAMES = _names_of(
    dict, list, str, set, frozenset, bytes, bytearray, tuple, int, float,
    _collections.deque, _io.IOBase, _io.TextIOWrapper, _logging.Logger, _re.Pattern, _re.Match,
) | {"set_low_latency_mode", "total_seconds", "timestamp", "isoformat"}


def _dotted(node: ast.expr) -> str | None:
    parts = []
    while isinstance(node, ast.Attribute):
        parts.append(node.attr)
        node = node.value
    if isinstance(node, ast.Name):
        parts.append(node.id)
        return ".".join(reversed(parts))
    return None


def _is_awaited(node: ast.Call) -> bool:
    par = getattr(node, "parent", None)
    if isinstance(par, ast.Await):
        return True
    # wait_for(coro(), t) / shield(coro()) / gather(coro(), ...) that are themselves awaited
    if isinstance(par, ast.Call) and node in par.args:
        fn = par.func
        nm = fn.attr if isinstance(fn, ast.Attribute) else (fn.id if isinstance(fn, ast.Name) else "")
        if nm in AWAIT_WRAPPERS:
            return _is_awaited(par) or True
    if isinstance(par, ast.Return):  # `return coro()` from a sync wrapper: caller awaits
        return True
    return False


def _is_task_arg(node: ast.Call) -> bool:
    par = getattr(node, "parent", None)
    if isinstance(par, ast.Call) and node in par.args:
        fn = par.func
        nm = fn.attr if isinstance(fn, ast.Attribute) else (fn.id if isinstance(fn, ast.Name) else "")
        return nm in TASK_METHODS
    return False
