"""E7a - future typestate: no set_result()/set_exception() on a future that may be done or cancelled.

pending -> done | cancelled. `await wait_for(F, t)` that times out moves F to cancelled (unless F is shielded).
A set_* call requires pending; accepted discharges (enumerated from the repo's own idioms):
  (a) a dominating test of `F.done()` with the call on its not-done side (`if F.done(): return`, `if not F.done(): ...`);
  (b) F was created in this function and no await lies between the creation and the call;
  (c) the FSM idiom: `F.cancelled()` tested first (call on its false side) and an `assert not F.done()` before the call.
"""

from __future__ import annotations

import ast

from .cfg import CFG, Node, _has_await
from .context import Ctx
from .exc import Policy
from .loader import FuncInfo, norm, own_nodes
from .report import RuleResult

SETTERS = ("set_result", "set_exception")


def future_sets(f: FuncInfo, ctx: Ctx) -> list[tuple[ast.Call, str]]:
    out = []
    for n in own_nodes(f.node):
        if isinstance(n, ast.Call) and isinstance(n.func, ast.Attribute) and n.func.attr in SETTERS:
            at = ctx.cg.atoms(f, n.func.value) or ()
            if any("Future" in a for a in at) or not at or any(a == "Any" for a in at):
                out.append((n, norm(n.func.value)))
    return out


def _stmt_node(cfg: CFG, call: ast.AST) -> Node | None:
    p: ast.AST | None = call
    while p is not None:
        ns = cfg.nodes_of(p)
        if ns:
            return ns[0]
        p = getattr(p, "parent", None)
    return None


def _polarity(test: ast.expr, recv: str, meth: str) -> str | None:
    """'pos' if test is `recv.meth()`, 'neg' if `not recv.meth()`; None otherwise (conjunctions handled by caller)."""
    if isinstance(test, ast.Call) and isinstance(test.func, ast.Attribute) and test.func.attr == meth and norm(test.func.value) == recv and not test.args:
        return "pos"
    if isinstance(test, ast.UnaryOp) and isinstance(test.op, ast.Not):
        p = _polarity(test.operand, recv, meth)
        return {"pos": "neg", "neg": "pos"}.get(p or "")
    return None


def _edges_establishing_not(test: ast.expr, recv: str, meth: str) -> list[str]:
    """Out-edge labels of a test node on which `recv.meth()` is known to be False."""
    p = _polarity(test, recv, meth)
    if p == "pos":
        return ["false"]
    if p == "neg":
        return ["true"]
    if isinstance(test, ast.BoolOp):
        if isinstance(test.op, ast.And):  # all conjuncts hold on the true edge
            if any(_polarity(v, recv, meth) == "neg" for v in test.values):
                return ["true"]
        else:  # all disjuncts are false on the false edge
            if any(_polarity(v, recv, meth) == "pos" for v in test.values):
                return ["false"]
    return []


def discharged(cfg: CFG, f: FuncInfo, call: ast.Call, recv: str) -> str | None:
    node = _stmt_node(cfg, call)
    if node is None:
        return None
    # the call may itself sit in a conditional expression / boolean operator: `F.done() or F.set_result(x)`
    p = getattr(call, "parent", None)
    if isinstance(p, ast.BoolOp) and isinstance(p.op, ast.Or) and call in p.values:
        if any(_polarity(v, recv, "done") == "pos" for v in p.values[: p.values.index(call)]):
            return "short-circuit after done()"
    # (a) dominating done() test
    for t in cfg.nodes:
        if t.kind == "test" and t.ast is not None:
            for lab in _edges_establishing_not(t.ast, recv, "done"):  # type: ignore[arg-type]
                if cfg.edge_dominates(t, lab, node):
                    return f"(a) on the not-done side of `{norm(t.ast)[:50]}`"
    # (c) cancelled() tested first + assert not done()
    cancelled_first = False
    for t in cfg.nodes:
        if t.kind == "test" and t.ast is not None:
            for lab in _edges_establishing_not(t.ast, recv, "cancelled"):  # type: ignore[arg-type]
                if cfg.edge_dominates(t, lab, node):
                    cancelled_first = True
    if cancelled_first:
        for d in cfg.dominated_by(node, lambda x: x.kind == "stmt" and isinstance(x.ast, ast.Assert)):
            a = d.ast
            assert isinstance(a, ast.Assert)
            if _polarity(a.test, recv, "done") == "neg":
                return "(c) cancelled() tested first, then `assert not done()`"
        # ... or the same assert packaged in a synchronous private method of the same object, called as a statement before the set
        if recv.startswith("self.") and f.cls is not None:
            for d in cfg.dominated_by(node, lambda x: x.kind == "stmt" and isinstance(x.ast, ast.Expr) and isinstance(x.ast.value, ast.Call) and isinstance(x.ast.value.func, ast.Attribute) and norm(x.ast.value.func.value) == "self"):
                hname = d.ast.value.func.attr  # type: ignore[union-attr]
                h = next((k.methods[hname] for k in f.cls.mro if hname in k.methods), None)
                if h is None or h.is_async:
                    continue
                if any(isinstance(x, ast.Assert) and _polarity(x.test, recv, "done") == "neg" for x in h.node.body) and not any(isinstance(x, (ast.Assign, ast.AugAssign)) and any(norm(t) == recv for t in (x.targets if isinstance(x, ast.Assign) else [x.target])) for x in own_nodes(h.node)):
                    return f"(c) cancelled() tested first, then `assert not done()` in self.{hname}()"
    # (b) created here, no await in between
    for d in cfg.dominated_by(node, lambda x: x.kind == "stmt" and isinstance(x.ast, (ast.Assign, ast.AnnAssign))):
        a = d.ast
        tgts = a.targets if isinstance(a, ast.Assign) else [a.target]  # type: ignore[union-attr]
        val = a.value  # type: ignore[union-attr]
        if any(norm(t) == recv for t in tgts) and val is not None and ("create_future" in norm(val) or norm(val).endswith("Future()")):
            fwd = cfg.reachable_from(d.id)
            awaiting = [x for x in cfg.nodes if x.id in fwd and x.ast is not None and x.kind != "join" and _has_await(x.ast) and node.id in cfg.reachable_from(x.id) and x.id != node.id]
            if not awaiting:
                return "(b) created in this function with no await before the call"
    return None


def typestate_rule(ctx: Ctx, rr: RuleResult, funcs: list[FuncInfo], policy: Policy, what: str) -> int:
    n = 0
    for f in funcs:
        sets = future_sets(f, ctx)
        if not sets:
            continue
        cfg = ctx.cfg(f, policy)
        for call, recv in sets:
            n += 1
            rr.instances += 1
            rr.nontrivial += 1
            why = discharged(cfg, f, call, recv)
            if why:
                rr.ok({"site": f"{f.short}: {norm(call)[:70]}", "discharged_by": why})
            else:
                rr.fail(
                    f"{f.short}:{norm(call.func)}",
                    f.loc(call),
                    f"{what}: `{norm(call)[:70]}` may run on a future that is already done or cancelled (asyncio.InvalidStateError): "
                    "no dominating done()/cancelled() test, and the future is not freshly created here",
                )
    return n


def unshielded_waits(ctx: Ctx, funcs: list[FuncInfo]) -> list[tuple[FuncInfo, ast.AST, str]]:
    """`await wait_for(F, t)` / a bare `await F` on a future held in an attribute: when the wait is cut short (timeout scope,
    cancellation of the waiting task) asyncio cancels F itself."""
    out: list[tuple[FuncInfo, ast.AST, str]] = []
    for f in funcs:
        for n in own_nodes(f.node):
            if isinstance(n, ast.Await) and isinstance(n.value, ast.Attribute):
                at = ctx.cg.atoms(f, n.value) or ()
                if any("Future" in x for x in at):
                    out.append((f, n, norm(n.value)))
                continue
            if isinstance(n, ast.Call) and norm(n.func).endswith("wait_for") and n.args:
                a = n.args[0]
                if isinstance(a, ast.Call):
                    continue  # a coroutine call, or shield(...)
                at = ctx.cg.atoms(f, a) or ()
                if any("Future" in x for x in at):
                    out.append((f, n, norm(a)))
    return out
