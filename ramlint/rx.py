"""E9 - regex/shape automata over a 17-symbol alphabet (16 upper-case hex digits + 'other').

Regexes are parsed with the stdlib's own parser (re._parser) on *extracted constant strings*; shapes are a tiny regular
language (literal / HEX{n} / HEX{m,n} / alternation / concatenation / repetition) computed from constructor source.
Both compile to an epsilon-NFA, then to a DFA; inclusion L(A) ⊆ L(B) is decided on the product with a shortest witness.
Semantics follow re.match as used by _check_msg_payload: anchored at the start, open at the end unless the pattern ends in $.
"""

from __future__ import annotations

import re
from dataclasses import dataclass, field
from typing import Any

_P = re._parser  # type: ignore[attr-defined]
_C = re._constants  # type: ignore[attr-defined]

HEX = "0123456789ABCDEF"
OTHER = "?"
ALPHABET = list(HEX) + [OTHER]
IDX = {c: i for i, c in enumerate(ALPHABET)}
ALL = frozenset(range(17))
HEXSET = frozenset(range(16))


def sym(ch: str) -> int:
    return IDX.get(ch, 16)


# ---- shapes -----------------------------------------------------------------------------------------


@dataclass(frozen=True)
class Shape:
    kind: str  # lit | set | cat | alt | rep | unknown
    text: str = ""
    syms: frozenset = frozenset()
    items: tuple = ()
    lo: int = 0
    hi: int | None = 0
    why: str = ""
    tag: str = ""  # provenance (e.g. the helper that produced this segment)

    def __str__(self) -> str:
        if self.kind == "lit":
            return repr(self.text)
        if self.kind == "set":
            return "H" if self.syms == HEXSET else ("." if self.syms == ALL else "[" + "".join(ALPHABET[i] for i in sorted(self.syms)) + "]")
        if self.kind == "cat":
            return " ".join(str(i) for i in self.items)
        if self.kind == "alt":
            return "(" + " | ".join(str(i) for i in self.items) + ")"
        if self.kind == "rep":
            return f"({self.items[0]}){{{self.lo},{'' if self.hi is None else self.hi}}}"
        return f"<unknown: {self.why}>"


def Lit(s: str) -> Shape:
    return Shape("lit", text=s)


def Hex(n: int) -> Shape:
    return Shape("rep", items=(Shape("set", syms=HEXSET),), lo=n, hi=n)


def HexRange(lo: int, hi: int | None) -> Shape:
    return Shape("rep", items=(Shape("set", syms=HEXSET),), lo=lo, hi=hi)


def Cat(*items: Shape) -> Shape:
    flat: list[Shape] = []
    for i in items:
        if i.kind == "unknown":
            return i
        if i.kind == "cat" and not i.tag:
            flat.extend(i.items)
        elif not (i.kind == "lit" and i.text == ""):
            flat.append(i)
    return Shape("cat", items=tuple(flat))


def Alt(*items: Shape) -> Shape:
    flat: list[Shape] = []
    for i in items:
        if i.kind == "unknown":
            return i
        if i.kind == "alt" and not i.tag:
            flat.extend(i.items)
        elif i not in flat:
            flat.append(i)
    return flat[0] if len(flat) == 1 else Shape("alt", items=tuple(flat))


def Rep(item: Shape, lo: int, hi: int | None) -> Shape:
    if item.kind == "unknown":
        return item
    return Shape("rep", items=(item,), lo=lo, hi=hi)


def Unknown(why: str) -> Shape:
    return Shape("unknown", why=why)


def retag(s: Shape, tag: str) -> Shape:
    from dataclasses import replace

    return replace(s, tag=tag)


def substitute(s: Shape, tag: str, new: Shape) -> Shape:
    """Replace every segment carrying `tag` by `new`."""
    from dataclasses import replace

    if s.tag == tag:
        return new
    if s.items:
        return replace(s, items=tuple(substitute(i, tag, new) for i in s.items))
    return s


def has_tag(s: Shape, tag: str) -> bool:
    return s.tag == tag or any(has_tag(i, tag) for i in s.items)


def is_unknown(s: Shape) -> bool:
    if s.kind == "unknown":
        return True
    return any(is_unknown(i) for i in s.items)


# ---- NFA ---------------------------------------------------------------------------------------------


@dataclass
class NFA:
    n: int = 0
    eps: dict[int, set[int]] = field(default_factory=dict)
    trans: dict[int, list[tuple[frozenset, int]]] = field(default_factory=dict)

    def new(self) -> int:
        self.n += 1
        return self.n - 1

    def e(self, a: int, b: int) -> None:
        self.eps.setdefault(a, set()).add(b)

    def t(self, a: int, syms: frozenset, b: int) -> None:
        self.trans.setdefault(a, []).append((syms, b))


def _shape_frag(nfa: NFA, s: Shape) -> tuple[int, int]:
    a, b = nfa.new(), nfa.new()
    if s.kind == "lit":
        cur = a
        for ch in s.text:
            nx = nfa.new()
            nfa.t(cur, frozenset([sym(ch)]), nx)
            cur = nx
        nfa.e(cur, b)
    elif s.kind == "set":
        nfa.t(a, s.syms, b)
    elif s.kind == "cat":
        cur = a
        for i in s.items:
            x, y = _shape_frag(nfa, i)
            nfa.e(cur, x)
            cur = y
        nfa.e(cur, b)
    elif s.kind == "alt":
        for i in s.items:
            x, y = _shape_frag(nfa, i)
            nfa.e(a, x)
            nfa.e(y, b)
    elif s.kind == "rep":
        cur = a
        for _ in range(s.lo):
            x, y = _shape_frag(nfa, s.items[0])
            nfa.e(cur, x)
            cur = y
        if s.hi is None:
            x, y = _shape_frag(nfa, s.items[0])
            nfa.e(cur, x)
            nfa.e(y, cur)
            nfa.e(cur, b)
        else:
            nfa.e(cur, b)
            for _ in range(s.hi - s.lo):
                x, y = _shape_frag(nfa, s.items[0])
                nfa.e(cur, x)
                cur = y
                nfa.e(cur, b)
    else:
        raise ValueError(f"unknown shape: {s.why}")
    return a, b


class Unsupported(Exception):
    pass


def _regex_frag(nfa: NFA, items: Any) -> tuple[int, int, bool]:
    """-> (start, end, anchored_at_end)."""
    a = nfa.new()
    cur = a
    end_anchor = False
    seq = list(items)
    for idx, (op, av) in enumerate(seq):
        if end_anchor:
            raise Unsupported("tokens after $")
        if op is _C.LITERAL:
            nx = nfa.new()
            nfa.t(cur, frozenset([sym(chr(av))]), nx)
            cur = nx
        elif op is _C.NOT_LITERAL:
            nx = nfa.new()
            nfa.t(cur, ALL - frozenset([sym(chr(av))]) | frozenset([16]), nx)
            cur = nx
        elif op is _C.ANY:
            nx = nfa.new()
            nfa.t(cur, ALL, nx)
            cur = nx
        elif op is _C.IN:
            nx = nfa.new()
            nfa.t(cur, _charset(av), nx)
            cur = nx
        elif op is _C.SUBPATTERN:
            x, y, anch = _regex_frag(nfa, av[3])
            nfa.e(cur, x)
            cur = y
            end_anchor = anch
        elif op is _C.BRANCH:
            nx = nfa.new()
            anchs = []
            for alt in av[1]:
                x, y, anch = _regex_frag(nfa, alt)
                nfa.e(cur, x)
                anchs.append((y, anch))
            if any(an for _, an in anchs) and not all(an for _, an in anchs):
                # mixed anchoring: un-anchored branches are open-ended here
                for y, an in anchs:
                    if an:
                        nfa.e(y, nx)
                    else:
                        loop = nfa.new()
                        nfa.e(y, loop)
                        nfa.t(loop, ALL, loop)
                        nfa.e(loop, nx)
                end_anchor = True
            else:
                for y, an in anchs:
                    nfa.e(y, nx)
                end_anchor = all(an for _, an in anchs) and bool(anchs)
            cur = nx
        elif op in (_C.MAX_REPEAT, _C.MIN_REPEAT):
            lo, hi, sub = av
            for _ in range(lo):
                x, y, _a = _regex_frag(nfa, sub)
                nfa.e(cur, x)
                cur = y
            if hi is _C.MAXREPEAT:
                x, y, _a = _regex_frag(nfa, sub)
                nfa.e(cur, x)
                nfa.e(y, cur)
            else:
                out = nfa.new()
                nfa.e(cur, out)
                for _ in range(hi - lo):
                    x, y, _a = _regex_frag(nfa, sub)
                    nfa.e(cur, x)
                    cur = y
                    nfa.e(cur, out)
                cur = out
        elif op is _C.AT:
            if av is _C.AT_BEGINNING:
                if cur != a and idx != 0:
                    pass  # ^ in the middle of an alternation branch start: match() is anchored anyway
            elif av is _C.AT_END:
                end_anchor = True
            else:
                raise Unsupported(f"AT {av}")
        else:
            raise Unsupported(str(op))
    return a, cur, end_anchor


def _charset(av: Any) -> frozenset:
    out: set[int] = set()
    negate = False
    for op, v in av:
        if op is _C.NEGATE:
            negate = True
        elif op is _C.LITERAL:
            out.add(sym(chr(v)))
        elif op is _C.RANGE:
            lo, hi = v
            for c in range(lo, hi + 1):
                out.add(sym(chr(c)))
        elif op is _C.CATEGORY:
            if v is _C.CATEGORY_DIGIT:
                out |= {sym(c) for c in "0123456789"}
            elif v is _C.CATEGORY_WORD:
                out |= set(range(17))
            else:
                raise Unsupported(f"category {v}")
        else:
            raise Unsupported(str(op))
    return frozenset(ALL - out if negate else out)


@dataclass
class DFA:
    start: int
    accept: set[int]
    delta: list[list[int]]  # state -> symbol -> state (total; -1 never used)


def _closure(nfa: NFA, states: frozenset) -> frozenset:
    seen = set(states)
    todo = list(states)
    while todo:
        s = todo.pop()
        for t in nfa.eps.get(s, ()):
            if t not in seen:
                seen.add(t)
                todo.append(t)
    return frozenset(seen)


def _determinise(nfa: NFA, start: int, final: int) -> DFA:
    s0 = _closure(nfa, frozenset([start]))
    ids = {s0: 0}
    order = [s0]
    delta: list[list[int]] = []
    i = 0
    while i < len(order):
        cur = order[i]
        row = []
        for a in range(17):
            nxt: set[int] = set()
            for s in cur:
                for syms, t in nfa.trans.get(s, ()):
                    if a in syms:
                        nxt.add(t)
            cl = _closure(nfa, frozenset(nxt))
            if cl not in ids:
                ids[cl] = len(order)
                order.append(cl)
                if len(order) > 60000:
                    raise Unsupported("automaton too large")
            row.append(ids[cl])
        delta.append(row)
        i += 1
    accept = {ids[s] for s in order if final in s}
    return DFA(0, accept, delta)


def regex_dfa(pattern: str) -> DFA:
    nfa = NFA()
    parsed = _P.parse(pattern)
    a, b, anchored = _regex_frag(nfa, parsed)
    final = nfa.new()
    if anchored:
        nfa.e(b, final)
    else:
        nfa.e(b, final)
        nfa.t(final, ALL, final)  # re.match: open at the end
    return _determinise(nfa, a, final)


def shape_dfa(s: Shape) -> DFA:
    nfa = NFA()
    a, b = _shape_frag(nfa, s)
    return _determinise(nfa, a, b)


def included(a: DFA, b: DFA) -> str | None:
    """None if L(a) ⊆ L(b), else a shortest word in L(a) \\ L(b)."""
    start = (a.start, b.start)
    parent: dict[tuple[int, int], tuple[tuple[int, int], int] | None] = {start: None}
    todo = [start]
    i = 0
    while i < len(todo):
        x, y = todo[i]
        i += 1
        if x in a.accept and y not in b.accept:
            word = []
            cur: tuple[int, int] = (x, y)
            while parent[cur] is not None:
                prev, s = parent[cur]  # type: ignore[misc]
                word.append(ALPHABET[s])
                cur = prev
            return "".join(reversed(word))
        for s in range(17):
            nx = (a.delta[x][s], b.delta[y][s])
            if nx not in parent:
                # prune: a-state that cannot reach acceptance is irrelevant (cheap check skipped)
                parent[nx] = ((x, y), s)
                todo.append(nx)
    return None


def regex_fixed_layout(pattern: str) -> list[tuple[int, int, str]] | None:
    """For a fixed-width pattern made of space-separated groups: [(start, end, text-of-group)] (used for COMMAND_REGEX)."""
    return None
