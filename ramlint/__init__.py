"""ramlint - repository-specific static analysis of zxdavb/ramses_rf.

Every verdict is computed from the source text under /repo/src (syntax trees, mypy
type facts, control-flow graphs, a call graph, folded constants). Nothing here imports
or runs ramses_tx / ramses_rf / ramses_cli.
"""

import os

REPO = os.environ.get("RAMLINT_REPO", "/repo")
VERIF = os.path.dirname(os.path.dirname(os.path.abspath(__file__)))
PACKAGES = ("ramses_tx", "ramses_rf")  # ramses_cli is parsed too, for who-may-call
