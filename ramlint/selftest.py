"""Seeded variants (thorough tier): AST-computed edits of one rule instance on a scratch copy of src/.

Each variant must still parse, and the named rule must report it; the clean tree must be silent.
Variants are declared by the property modules (VARIANTS = [...]) - see ramlint/variants.py.
"""

from __future__ import annotations


def run(props: list[str], jobs: int = 16, attach_evidence: bool = False) -> int:
    try:
        from . import variants
    except ImportError:
        print("[ramlint] selftest: no variants module yet")
        return 0
    return variants.run(props, jobs=jobs, attach_evidence=attach_evidence)
