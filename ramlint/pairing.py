"""E7b - bracket pairing: every path from an `open` call to any exit passes a `close` call."""

from __future__ import annotations

import ast
from typing import Callable

from .cfg import CFG, Node
from .context import Ctx
from .exc import Policy
from .loader import FuncInfo, norm
from .report import RuleResult


def contains_call(node: ast.AST | None, pred: Callable[[ast.Call], bool]) -> bool:
    if node is None:
        return False
    stack = [node]
    while stack:
        n = stack.pop()
        if isinstance(n, ast.Call) and pred(n):
            return True
        if isinstance(n, (ast.FunctionDef, ast.AsyncFunctionDef, ast.Lambda, ast.ClassDef)) and n is not node:
            continue
        stack.extend(ast.iter_child_nodes(n))
    return False


def method_call(name: str) -> Callable[[ast.Call], bool]:
    def pred(c: ast.Call) -> bool:
        f = c.func
        return (isinstance(f, ast.Attribute) and f.attr == name) or (isinstance(f, ast.Name) and f.id == name)

    return pred


def bracket_rule(
    ctx: Ctx,
    rr: RuleResult,
    f: FuncInfo,
    open_pred: Callable[[ast.Call], bool],
    close_pred: Callable[[ast.Call], bool],
    policy: Policy,
    what: str,
    ignore_exc: Callable[[str], bool] | None = None,
    cancellation: bool = True,
) -> int:
    """Returns the number of open sites found."""
    cfg: CFG = ctx.cfg(f, policy, cancellation=cancellation)
    opens = [n for n in cfg.nodes if n.kind in ("stmt", "test", "iter", "with") and contains_call(n.ast, open_pred)]
    seen_ast: set[int] = set()
    count = 0
    for n in opens:
        if id(n.ast) in seen_ast:
            continue  # the same statement duplicated in a finally copy
        seen_ast.add(id(n.ast))
        count += 1
        rr.instances += 1
        rr.nontrivial += 1

        def passing(x: Node) -> bool:
            return x.ast is not None and x.kind in ("stmt", "test", "iter", "with") and contains_call(x.ast, close_pred)

        def edge_ok(x: Node, lab: str) -> bool:
            if ignore_exc is not None and lab.startswith("exc:") and ignore_exc(lab[4:]):
                return False
            return True

        # the close must not run when the open itself failed: open inside the `try` whose `finally` closes
        par = getattr(n.ast, "parent", None)
        if isinstance(par, ast.Try) and n.ast in par.body and any(contains_call(b, close_pred) for b in par.finalbody):
            rr.fail(
                f"{f.short}:{norm(n.ast)[:60]}:open-inside-try",
                f.loc(n.ast),
                f"{what}: `{norm(n.ast)[:60]}` sits inside the try whose finally runs the closing call: when the opening call itself raises (e.g. already open), the close undoes somebody else's open",
            )
            continue
        leaks = cfg.exits_reachable_without(n.id, passing, edge_ok=edge_ok)
        if not leaks:
            rr.ok({"function": f.short, "open": norm(n.ast)[:80], "exits_all_pass_close": True})
            continue
        # group by the first exceptional step / the exit kind: one finding per distinct offending exit
        groups: dict[str, tuple[Node, list[Node], list[str]]] = {}
        for ex, path, labs in leaks:
            why = "normal-exit"
            at = None
            for p, lab in zip(path, labs):
                if lab.startswith("exc:") or lab in ("return",):
                    why = lab
            for i, lab in enumerate(labs):
                if lab.startswith("exc:"):
                    at = path[i - 1] if i > 0 else None
                    why = lab
                    break
            key = f"{why}@{norm(at.ast)[:70] if at is not None and at.ast is not None else ex.kind}"
            groups.setdefault(key, (ex, path, labs))
        for key, (ex, path, labs) in list(groups.items())[:12]:
            steps = [f"{p.kind}@{p.line}:{norm(p.ast)[:50] if p.ast is not None else ''} --{lab}-->" for p, lab in zip(path, labs[1:] + [""])][:10]
            rr.fail(
                f"{f.short}:{norm(n.ast)[:60]}:{'exceptional' if ex.kind == 'raise_exit' else 'normal'}-exit",
                f.loc(n.ast),
                f"{what}: a path from `{norm(n.ast)[:60]}` reaches the function's {'exceptional' if ex.kind == 'raise_exit' else 'normal'} exit without the closing call ({key})",
                steps,
            )
    return count
