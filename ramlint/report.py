"""Rule results, findings, known findings, evidence files, exit codes."""

from __future__ import annotations

import json
import os
import time
from dataclasses import dataclass, field
from typing import Any

from . import VERIF

EVIDENCE_DIR = os.path.join(VERIF, "evidence")
VIOL_DIR = os.path.join(EVIDENCE_DIR, "violations")
KNOWN_PATH = os.path.join(VERIF, "known_findings.json")


@dataclass
class Finding:
    rule: str  # e.g. "R1"
    key: str  # stable key: module:qualname + normalised construct / rule-specific key
    where: str  # file:line at time of run
    message: str
    detail: list[str] = field(default_factory=list)

    def as_dict(self, prop: str) -> dict[str, Any]:
        return {"property": prop, "rule": self.rule, "key": self.key, "where": self.where, "message": self.message, "detail": self.detail}


@dataclass
class RuleResult:
    rule: str
    title: str
    decides: str
    instances: int = 0  # rule instances examined
    min_instances: int = 1  # vacuity floor (confirmed by hand on the pinned tree)
    nontrivial: int = 0  # instances that matched a real construct (counted)
    obligations: int = 0
    discharged: int = 0
    samples: list[Any] = field(default_factory=list)
    findings: list[Finding] = field(default_factory=list)
    notes: list[str] = field(default_factory=list)
    info: dict[str, Any] = field(default_factory=dict)

    def ok(self, sample: Any = None, n: int = 1) -> None:
        self.obligations += n
        self.discharged += n
        if sample is not None and len(self.samples) < 12:
            self.samples.append(sample)

    def fail(self, key: str, where: str, message: str, detail: list[str] | None = None) -> None:
        self.obligations += 1
        self.findings.append(Finding(self.rule, key, where, message, detail or []))


def load_known() -> dict[str, Any]:
    if not os.path.exists(KNOWN_PATH):
        return {"findings": [], "fixed": []}
    with open(KNOWN_PATH) as fh:
        return json.load(fh)


def finish(prop: str, tier: str, seed: int, results: list[RuleResult], t0: float, stats: dict[str, Any], meta: dict[str, Any], only: tuple[str, str] | None = None, write: bool = True) -> int:
    """Print the verdict lines, write evidence, return the exit code."""
    known = load_known()
    known_keys = {(k["property"], k["rule"], k["key"]): k for k in known.get("findings", [])}
    exit_code = 0
    n_viol = 0
    n_known = 0
    lines: list[str] = []
    vacuous = [r for r in results if r.instances < r.min_instances]
    for r in vacuous:
        lines.append(
            f"ANALYSIS-ERROR property={prop} rule={r.rule}: {r.instances} instance(s) found, fewer than the {r.min_instances} confirmed by hand - "
            "the rule would pass vacuously (anchor moved or renamed?)"
        )
    if vacuous:
        exit_code = 2
    os.makedirs(VIOL_DIR, exist_ok=True)
    seen_known: set[tuple[str, str, str]] = set()
    k = 0
    viol_samples = []
    for r in results:
        for f in r.findings:
            if only is not None and (f.rule, f.key) != only:
                continue
            kk = (prop, f.rule, f.key)
            if kk in known_keys:
                n_known += 1
                seen_known.add(kk)
                lines.append(f"KNOWN-FINDING: property={prop} {prop}.{f.rule} {f.key}: {known_keys[kk].get('what', f.message)}")
                continue
            n_viol += 1
            k += 1
            path = os.path.join(VIOL_DIR, f"{prop}-{f.rule}-{k}.json")
            if write:
                with open(path, "w") as fh:
                    json.dump(f.as_dict(prop), fh, indent=1)
            lines.append(f"VIOLATION property={prop} replay={path}")
            lines.append(f"  {prop}.{f.rule} at {f.where}: {f.message}")
            lines.append(f"  key: {f.key}")
            for d in f.detail[:14]:
                lines.append(f"    {d}")
            viol_samples.append(f.as_dict(prop))
    for kk, kf in known_keys.items():
        if kk[0] == prop and kk not in seen_known and only is None and exit_code == 0:
            lines.append(f"STALE-KNOWN-FINDING: property={prop} {prop}.{kk[1]} {kk[2]} no longer reported (informational)")
    if n_viol and exit_code == 0:
        exit_code = 1
    elif n_viol and vacuous:
        # an unlisted violation was found and, besides, some rule saw fewer instances than usual (the reported change removed or
        # re-shaped them): the violation is the verdict; the ANALYSIS-ERROR lines above stay in the output for the reader
        exit_code = 1
    for ln in lines:
        print(ln)

    evaluations = sum(r.instances for r in results)
    nontrivial = sum(r.nontrivial for r in results)
    obligations = sum(r.obligations for r in results)
    discharged = sum(r.discharged for r in results)
    samples: list[Any] = []
    for r in results:
        for s in r.samples[:4]:
            samples.append({"rule": f"{prop}.{r.rule}", "instance": s})
    samples += [{"violation": v} for v in viol_samples[:6]]
    evidence = {
        "property_id": prop,
        "tier": tier,
        "seed": seed,
        "level": "other",
        "coverage": {
            "explanation": meta.get("explanation", ""),
            "evaluations": evaluations,
            "distinct_nontrivial": nontrivial,
            "rule": "one evaluation = one rule instance (a call site, path, table row, handler, guard ...) examined on the current tree; "
            "non-trivial = the instance matched a real construct in /repo/src and a verdict was computed for it (distinct by rule+key)",
            "samples": samples or [{"note": "no instances"}],
            "obligations": obligations,
            "discharged": discharged,
            "checker_cmd": meta.get("checker_cmd", ""),
            "trusted_base": meta.get("trusted_base", []),
            "exhaustive": True,
            "rules": [
                {
                    "rule": f"{prop}.{r.rule}",
                    "title": r.title,
                    "decides": r.decides,
                    "instances": r.instances,
                    "min_instances": r.min_instances,
                    "obligations": r.obligations,
                    "discharged": r.discharged,
                    "findings": len(r.findings),
                    "notes": r.notes[:20],
                    **({"info": r.info} if r.info else {}),
                }
                for r in results
            ],
            "engine": stats,
            "known_findings_matched": n_known,
        },
        "assumptions": meta.get("assumptions", []),
        "wall_s": round(time.time() - t0, 3),
        "violations": n_viol,
    }
    if only is None and write:
        os.makedirs(EVIDENCE_DIR, exist_ok=True)
        with open(os.path.join(EVIDENCE_DIR, f"{prop}.json"), "w") as fh:
            json.dump(evidence, fh, indent=1, default=str)
    status = {0: "PASS", 1: "FAIL", 2: "ANALYSIS-ERROR"}[exit_code]
    print(
        f"[ramlint] {prop} {tier}: {status} rules={len(results)} instances={evaluations} obligations={obligations} discharged={discharged} "
        f"violations={n_viol} known={n_known} wall={time.time() - t0:.1f}s"
    )
    return exit_code
