"""Finite abstract evaluation of predicate functions (decision lists) - no execution of repository code.

A filter such as `Gateway.get_state.wanted_msg`, `is_phase`, `_is_wanted_addrs` only *compares* a handful of subjects
(`msg.verb`, `msg.code`, `dev_id` ...) with constants and tests a few opaque flags (`msg._expired`, `include_expired`).
Its behaviour is therefore a function of: for each subject, which of the constants it is compared with it equals (or none
of them); and the truth value of each opaque flag. That domain is finite, so the function's *source* can be interpreted by
this module's own evaluator over every abstract input, yielding its complete decision table. Rules are then predicates over
that table ("no admitted row has verb == RQ"), which any behaviour-preserving rewrite of the function keeps true.

Supported statements: if/elif/else, return, assignments to locals, `for x in (<literal tuple>)` (unrolled), continue/break,
pass, expression statements (ignored), assert (ignored). Expressions: and/or/not, comparisons (== != in not in is is not,
chains), calls of nothing (any other call or unknown expression is an *opaque atom* that takes both truth values, keyed by
its normalised text), names bound earlier, constants, conditional expressions.

Anything not understood raises Unsupported: the calling rule reports it as undecided (exit 2), never as a pass.
"""

from __future__ import annotations

import ast
import itertools
from typing import Any, Callable

from .consteval import TOP
from .loader import FuncInfo, norm

OTHER = "<other>"


class Unsupported(Exception):
    pass


class _Return(Exception):
    def __init__(self, v: Any) -> None:
        self.v = v


class _Continue(Exception):
    pass


class _NeedAtom(Exception):
    def __init__(self, key: str) -> None:
        self.key = key


class _Break(Exception):
    pass


def _clone(node: Any, subst: dict[str, ast.expr]) -> Any:
    """Structural copy over _fields only (the loader's .parent back-links are not followed), with names substituted."""
    if isinstance(node, ast.Name) and node.id in subst:
        return _clone(subst[node.id], {})
    if isinstance(node, ast.AST):
        new = type(node)()
        for fld in node._fields:
            v = getattr(node, fld, None)
            if isinstance(v, list):
                setattr(new, fld, [_clone(x, subst) for x in v])
            else:
                setattr(new, fld, _clone(v, subst))
        for a in ("lineno", "col_offset", "end_lineno", "end_col_offset"):
            if hasattr(node, a):
                setattr(new, a, getattr(node, a))
        return new
    return node


class Table:
    """The decision table: rows of ({subject: value or OTHER, atom: bool}, result)."""

    def __init__(self, subjects: dict[str, list[Any]], atoms: list[str], rows: list[tuple[dict[str, Any], Any]]) -> None:
        self.subjects = subjects
        self.atoms = atoms
        self.rows = rows

    def where(self, pred: Callable[[dict[str, Any], Any], bool]) -> list[tuple[dict[str, Any], Any]]:
        return [(a, r) for a, r in self.rows if pred(a, r)]

    @staticmethod
    def canon(text: str) -> "tuple[str, bool]":
        """(positive spelling of an atom, polarity): 'a != b' -> ('a == b', False), 'x not in y' -> ('x in y', False), 'a is not b' -> ('a is b', False)."""
        try:
            e = ast.parse(text, mode="eval").body
        except SyntaxError:
            return text, True
        if isinstance(e, ast.Compare) and len(e.ops) == 1:
            flip = {ast.NotEq: ast.Eq, ast.IsNot: ast.Is, ast.NotIn: ast.In}
            for neg, pos in flip.items():
                if isinstance(e.ops[0], neg):
                    return norm(ast.Compare(left=e.left, ops=[pos()], comparators=e.comparators)), False
        return norm(e), True

    def has(self, text: str) -> bool:
        return self.canon(text)[0] in self.atoms

    def truth(self, a: dict[str, Any], text: str) -> bool:
        """Truth of an atom in a row, whichever polarity it is asked in."""
        k, pol = self.canon(text)
        return bool(a[k]) if pol else not bool(a[k])

    def describe(self, a: dict[str, Any]) -> str:
        return ", ".join(f"{k}={v!r}" for k, v in sorted(a.items()))


class PredEval:
    def __init__(self, ctx: Any, f: FuncInfo, params: dict[str, Any] | None = None, subject_ok: Callable[[str], bool] | None = None, max_rows: int = 200000, domains: dict[str, list[Any]] | None = None) -> None:
        self.ctx = ctx
        self.f = f
        self.params = dict(params or {})  # parameter name -> concrete value (e.g. a flag fixed by the rule)
        self.subject_ok = subject_ok or (lambda s: True)
        self.max_rows = max_rows
        self.subjects: dict[str, list[Any]] = {}
        self.atoms: list[str] = []
        self.notes: set[str] = set()
        self._const_cache: dict[int, Any] = {}
        self._key_cache: dict[tuple, str] = {}
        self._cmp_nodes: dict[tuple, ast.Compare] = {}
        self._keep: list[Any] = []  # keeps synthesised nodes alive so that id()-keyed caches stay valid
        self.body: list[ast.stmt] = self._prep()
        self._collect()
        # values the calling rule wants told apart even if the function no longer mentions them (else they hide in OTHER)
        for k, vals in (domains or {}).items():
            cur = self.subjects.setdefault(k, [])
            for v in vals:
                if v not in cur:
                    cur.append(v)

    # -- constants ----------------------------------------------------------------------------

    def _const(self, e: ast.expr) -> Any:
        k = id(e)
        c = self._const_cache.get(k, self)
        if c is not self:
            return c
        c = self._const_raw(e)
        self._const_cache[k] = c
        self._keep.append(e)
        return c

    def _const_raw(self, e: ast.expr) -> Any:
        if isinstance(e, ast.Constant):
            return e.value
        if isinstance(e, (ast.Tuple, ast.List, ast.Set)):
            vals = [self._const(x) for x in e.elts]
            if any(v is TOP for v in vals):
                return TOP
            return tuple(vals)
        try:
            v = self.ctx.consts.eval_in(self.f, e)
        except Exception:
            return TOP
        if v is TOP:
            return TOP
        if isinstance(v, (str, int, float, bool, type(None))):
            return v
        if isinstance(v, (tuple, list, set, frozenset)) and all(isinstance(x, (str, int, float, bool, type(None))) for x in v):
            return tuple(v)
        if isinstance(v, dict) and all(isinstance(x, (str, int)) for x in v):
            return tuple(v)
        return TOP

    def _is_local(self, e: ast.expr, locals_: set[str]) -> bool:
        return isinstance(e, ast.Name) and e.id in locals_

    # -- collection of subjects and atoms --------------------------------------------------------

    def _prep(self) -> list[ast.stmt]:
        """The function body with pure local aliases inlined: a name bound exactly once to an attribute/subscript/name chain that
        the function never assigns to (`cmd = self._sent_cmd`, `hdr = cmd.rx_header`) is replaced by that chain everywhere, so
        that a test spelled through the alias and the same test spelled in full are one atom / one subject."""
        fn = self.f.node
        params = {a.arg for a in fn.args.posonlyargs + fn.args.args + fn.args.kwonlyargs}
        count: dict[str, int] = {}
        cand: dict[str, ast.expr] = {}
        stores: set[str] = set()
        nested = {id(x) for d in ast.walk(fn) if d is not fn and isinstance(d, (ast.FunctionDef, ast.AsyncFunctionDef, ast.Lambda)) for x in ast.walk(d)}
        for n in ast.walk(fn):
            if id(n) in nested:
                continue
            if isinstance(n, (ast.Attribute, ast.Subscript)) and isinstance(n.ctx, (ast.Store, ast.Del)):
                stores.add(norm(n))
            if isinstance(n, ast.Name) and isinstance(n.ctx, (ast.Store, ast.Del)):
                count[n.id] = count.get(n.id, 0) + 1
            if isinstance(n, (ast.Assign, ast.AnnAssign)) and getattr(n, "value", None) is not None:
                tg = n.targets if isinstance(n, ast.Assign) else [n.target]
                if len(tg) == 1 and isinstance(tg[0], ast.Name):
                    cand[tg[0].id] = n.value

        def chain(e: ast.expr) -> bool:
            while isinstance(e, (ast.Attribute, ast.Subscript)):
                if isinstance(e, ast.Subscript) and not all(isinstance(x, (ast.Constant, ast.Slice, ast.UnaryOp, ast.Name, ast.Attribute)) for x in ast.walk(e.slice) if isinstance(x, ast.expr) and not isinstance(x, ast.expr_context)):
                    return False
                e = e.value
            return isinstance(e, ast.Name)

        alias = {k: v for k, v in cand.items() if count.get(k) == 1 and k not in params and isinstance(v, (ast.Attribute, ast.Subscript)) and chain(v)}
        # the aliased chain (or a prefix of it) must not be assigned in this function, else the alias holds an older value
        def assigned(e: ast.expr) -> bool:
            cur: ast.expr = e
            while isinstance(cur, (ast.Attribute, ast.Subscript)):
                if norm(cur) in stores:
                    return True
                cur = cur.value
            return False

        alias = {k: v for k, v in alias.items() if not assigned(v)}
        # resolve alias-of-alias, dropping any whose chain is rooted in a non-alias re-bound local
        for _ in range(4):
            alias = {k: _clone(v, alias) for k, v in alias.items()}
        for k, v in list(alias.items()):
            root = v
            while isinstance(root, (ast.Attribute, ast.Subscript)):
                root = root.value
            if isinstance(root, ast.Name) and root.id not in params and root.id not in ("self", "cls") and count.get(root.id, 0) != 0:
                del alias[k]
        self.inlined_aliases = {k: norm(v) for k, v in alias.items()}
        if not alias:
            body0 = [self._inline_predicates(_clone(st, {}), 0) for st in fn.body]
            self._keep.append(body0)
            return body0

        def drop(st: ast.stmt) -> bool:
            return isinstance(st, (ast.Assign, ast.AnnAssign)) and (st.targets if isinstance(st, ast.Assign) else [st.target])[0:1] and isinstance((st.targets if isinstance(st, ast.Assign) else [st.target])[0], ast.Name) and (st.targets if isinstance(st, ast.Assign) else [st.target])[0].id in alias and len(st.targets if isinstance(st, ast.Assign) else [st.target]) == 1

        def rewrite(stmts: list[ast.stmt]) -> list[ast.stmt]:
            out: list[ast.stmt] = []
            for st in stmts:
                if drop(st):
                    continue
                new = _clone(st, alias)
                for fld in ("body", "orelse", "finalbody"):
                    sub = getattr(st, fld, None)
                    if isinstance(sub, list) and sub and isinstance(sub[0], ast.stmt):
                        setattr(new, fld, rewrite(sub) or ([ast.Pass()] if fld == "body" else []))
                if isinstance(st, ast.Try):
                    new.handlers = [_clone(h, alias) for h in st.handlers]
                out.append(new)
            return out

        body = rewrite(list(fn.body))
        body = [self._inline_predicates(st, 0) for st in body]
        self._keep.append(body)
        return body

    # -- pure predicate helpers: `if self._is_x(a, b):` where _is_x is a side-effect-free decision list of the same class/module --

    def _callee_of(self, c: ast.Call) -> "FuncInfo | None":
        repo = getattr(self.ctx, "repo", None)
        if repo is None:
            return None
        if isinstance(c.func, ast.Attribute) and isinstance(c.func.value, ast.Name) and c.func.value.id == "self" and self.f.cls is not None:
            for k in self.f.cls.mro:
                if c.func.attr in k.methods:
                    return k.methods[c.func.attr]
            return None
        if isinstance(c.func, ast.Name):
            g = self.f.nested.get(c.func.id) if hasattr(self.f, "nested") else None
            if g is not None:
                return g
            q = f"{self.f.module.name}.{c.func.id}"
            return repo.funcs.get(q)
        return None

    @staticmethod
    def _pure_expr(e: ast.AST) -> bool:
        for x in ast.walk(e):
            if isinstance(x, (ast.Await, ast.Yield, ast.YieldFrom, ast.NamedExpr, ast.Lambda)):
                return False
            if isinstance(x, ast.Call) and not (isinstance(x.func, ast.Name) and x.func.id in ("isinstance", "bool", "len", "int", "str", "hasattr", "getattr")):
                return False
        return True

    def _as_expr(self, stmts: list[ast.stmt], subst: dict[str, ast.expr]) -> "ast.expr | None":
        """A side-effect-free decision list (`x = <pure>`, `if c: return A`, ..., `return B`) as one expression, or None."""
        stmts = [st for st in stmts if not (isinstance(st, ast.Expr) and isinstance(st.value, ast.Constant))]
        if not stmts:
            return ast.Constant(value=None)
        st, rest = stmts[0], stmts[1:]
        if isinstance(st, ast.Return):
            v = st.value if st.value is not None else ast.Constant(value=None)
            return _clone(v, subst) if self._pure_expr(v) else None
        if isinstance(st, (ast.Assign, ast.AnnAssign)) and getattr(st, "value", None) is not None:
            tg = st.targets if isinstance(st, ast.Assign) else [st.target]
            if len(tg) == 1 and isinstance(tg[0], ast.Name) and self._pure_expr(st.value):
                later_stores = any(isinstance(x, ast.Name) and x.id == tg[0].id and isinstance(x.ctx, ast.Store) for r in rest for x in ast.walk(r))
                if later_stores:
                    return None
                sub2 = dict(subst)
                sub2[tg[0].id] = _clone(st.value, subst)
                return self._as_expr(rest, sub2)
            return None
        if isinstance(st, ast.If) and self._pure_expr(st.test):
            def leaves(b: list[ast.stmt]) -> bool:
                return bool(b) and (isinstance(b[-1], ast.Return) or (isinstance(b[-1], ast.If) and b[-1].orelse and leaves(b[-1].body) and leaves(b[-1].orelse)))
            a = self._as_expr(st.body + ([] if leaves(st.body) else rest), subst)
            b = self._as_expr((st.orelse + ([] if leaves(st.orelse) else rest)) if st.orelse else rest, subst)
            if a is None or b is None:
                return None
            return ast.IfExp(test=_clone(st.test, subst), body=a, orelse=b)
        if isinstance(st, (ast.Assert, ast.Pass)):
            return self._as_expr(rest, subst)
        return None

    def _inline_predicates(self, node: Any, depth: int) -> Any:
        if isinstance(node, list):
            return [self._inline_predicates(x, depth) for x in node]
        if not isinstance(node, ast.AST):
            return node
        for fld in node._fields:
            v = getattr(node, fld, None)
            if isinstance(v, (list, ast.AST)):
                setattr(node, fld, self._inline_predicates(v, depth))
        if isinstance(node, ast.Call) and depth < 2 and not any(isinstance(a, ast.Starred) for a in node.args) and not any(k.arg is None for k in node.keywords):
            g = self._callee_of(node)
            if g is not None and not g.is_async and g.node is not self.f.node and not g.decorators:
                params = [a.arg for a in g.node.args.posonlyargs + g.node.args.args]
                if params and params[0] in ("self", "cls") and isinstance(node.func, ast.Attribute):
                    params = params[1:]
                if len(node.args) <= len(params) and not g.node.args.vararg and not g.node.args.kwarg:
                    sub: dict[str, ast.expr] = dict(zip(params, node.args))
                    sub.update({k.arg: k.value for k in node.keywords if k.arg})
                    dflt = g.node.args.defaults
                    for pn, d in zip(params[len(params) - len(dflt):] if dflt else [], dflt):
                        sub.setdefault(pn, d)
                    if all(pn in sub for pn in params) and all(self._pure_expr(a) for a in sub.values()):
                        e = self._as_expr(list(g.node.body), sub)
                        if e is not None:
                            self.notes.add(f"inlined pure predicate {g.short}")
                            return self._inline_predicates(e, depth + 1)
        return node

    def _collect(self) -> None:
        locals_: set[str] = set()
        for n in self._walk_body():
            if isinstance(n, ast.Assign):
                for t in n.targets:
                    for x in ast.walk(t):
                        if isinstance(x, ast.Name):
                            locals_.add(x.id)
            elif isinstance(n, (ast.For, ast.comprehension)):
                for x in ast.walk(n.target):
                    if isinstance(x, ast.Name):
                        locals_.add(x.id)
        self.locals_ = locals_
        # locals that merely alias an attribute/subscript (`verb = cmd.verb`, `a, b = x.p, x.q`): comparisons on them are
        # comparisons on the aliased expression, which is what gets enumerated
        self._alias: dict[str, ast.expr] = {}
        seen_count: dict[str, int] = {}
        for n in self._walk_body():
            pairs = []
            if isinstance(n, ast.Assign) and len(n.targets) == 1:
                t = n.targets[0]
                if isinstance(t, ast.Name):
                    pairs = [(t, n.value)]
                elif isinstance(t, ast.Tuple) and isinstance(n.value, ast.Tuple) and len(t.elts) == len(n.value.elts):
                    pairs = [(a, b) for a, b in zip(t.elts, n.value.elts) if isinstance(a, ast.Name)]
            elif isinstance(n, ast.AnnAssign) and isinstance(n.target, ast.Name) and n.value is not None:
                pairs = [(n.target, n.value)]
            for a, b in pairs:
                seen_count[a.id] = seen_count.get(a.id, 0) + 1
                if isinstance(b, (ast.Attribute, ast.Subscript)):
                    self._alias[a.id] = b
        self._alias = {k: v for k, v in self._alias.items() if seen_count.get(k) == 1}
        for n in self._walk_body():
            if isinstance(n, ast.Compare):
                left = n.left
                for op, right in zip(n.ops, n.comparators):
                    self._note_compare(left, op, right)
                    left = right

    def _walk_body(self):
        for st in self.body:
            yield from ast.walk(st)

    def _note_compare(self, left: ast.expr, op: ast.cmpop, right: ast.expr) -> None:
        lc, rc = self._const(left), self._const(right)
        for subj, const in ((left, rc), (right, lc)):
            if const is TOP:
                continue
            if self._const(subj) is not TOP:
                continue
            if isinstance(subj, ast.Name) and subj.id in self._alias:
                subj = self._alias[subj.id]
            key = norm(subj)
            if isinstance(op, (ast.In, ast.NotIn)) and subj is left and isinstance(const, tuple):
                vals = self.subjects.setdefault(key, [])
                for v in const:
                    if v not in vals:
                        vals.append(v)
            elif isinstance(op, (ast.Eq, ast.NotEq, ast.Is, ast.IsNot)):
                vals = self.subjects.setdefault(key, [])
                if const not in vals:
                    vals.append(const)

    # -- evaluation ------------------------------------------------------------------------------

    def table(self, expand: "Callable[[str], bool] | None" = None) -> Table:
        """`expand`: which opaque atoms a rule reads - don't-care values are filled in only for those (an atom the rule never looks
        at, e.g. the bookkeeping of a once-a-day warning, then costs one leaf per outcome instead of doubling the table)."""
        # subjects that are loop variables/locals are resolved through the environment, not enumerated
        fn_params = {a.arg for a in self.f.node.args.posonlyargs + self.f.node.args.args + self.f.node.args.kwonlyargs}
        self._param_subjects = {k for k in self.subjects if k in fn_params and k not in self.params}
        subj_keys = [k for k in self.subjects if (k not in self.locals_ or k in self._param_subjects) and k not in self.params and self.subject_ok(k)]
        doms = [self.subjects[k] + [OTHER] for k in subj_keys]
        # opaque atoms are discovered on demand: a run that needs an unassigned atom is split in two (decision-tree search), so
        # only the reachable part of the truth table is evaluated; don't-care atoms are filled in afterwards without re-running
        leaves: list[tuple[dict[str, Any], dict[str, bool], Any, tuple]] = []
        atoms: list[str] = []
        n_runs = 0
        for combo in itertools.product(*doms):
            env = dict(zip(subj_keys, combo))
            stack: list[dict[str, bool]] = [{}]
            while stack:
                aenv = stack.pop()
                n_runs += 1
                if n_runs > self.max_rows:
                    raise Unsupported(f"decision tree too large (> {self.max_rows} runs)")
                try:
                    res = self._run(dict(env), aenv)
                except _NeedAtom as na:
                    if na.key not in atoms:
                        atoms.append(na.key)
                    stack.append({**aenv, na.key: True})
                    stack.append({**aenv, na.key: False})
                    continue
                leaves.append((env, aenv, res, tuple(self._effects)))
        self.atoms = atoms
        self.leaves = leaves
        total = len(leaves)
        rows: list[tuple[dict[str, Any], Any]] = []
        est = sum(2 ** len([k for k in atoms if k not in a and (expand is None or expand(k))]) for _e, a, _r, _x in leaves)
        if est > self.max_rows:
            raise Unsupported(f"decision table too large ({est} rows)")
        for env, aenv, res, eff in leaves:
            free = [k for k in atoms if k not in aenv and (expand is None or expand(k))]
            for bits in itertools.product((False, True), repeat=len(free)):
                rows.append(({**env, **aenv, **dict(zip(free, bits)), "__effects__": eff}, res))
        return Table({k: self.subjects[k] for k in subj_keys}, atoms, rows)

    def _run(self, env: dict[str, Any], aenv: dict[str, bool]) -> Any:
        self._env = env
        self._aenv = aenv
        self._loc: dict[str, Any] = dict(self.params)
        self._key_alias: dict[str, Any] = {}
        self._effects: list[str] = []  # calls executed, in order (normalised text)
        self._ver: dict[str, int] = {}  # attribute/subscript text -> number of opaque re-assignments so far
        for k in getattr(self, "_param_subjects", ()):  # a parameter that is later re-bound starts at its enumerated value
            if k in env:
                self._loc[k] = env[k]
        try:
            self._block(self.body)
        except _Return as r:
            return r.v
        return None

    def _block(self, body: list[ast.stmt]) -> None:
        for st in body:
            if isinstance(st, ast.Return):
                raise _Return(self._val(st.value) if st.value is not None else None)
            if isinstance(st, ast.If):
                if self._truth(st.test):
                    self._block(st.body)
                else:
                    self._block(st.orelse)
            elif isinstance(st, ast.Assign) and len(st.targets) == 1 and isinstance(st.targets[0], ast.Name) and not self._is_effect(st.value):
                v0 = st.value
                self._key_alias.pop(st.targets[0].id, None)
                if isinstance(v0, (ast.Attribute, ast.Subscript)) and self._const(v0) is TOP and self._subject_value(v0) is TOP:
                    self._loc[st.targets[0].id] = ("expr", v0)  # an alias of an opaque expression: tests on it are tests on the expression
                else:
                    self._loc[st.targets[0].id] = self._val(v0)
                    if isinstance(v0, (ast.Attribute, ast.Subscript)) and self._const(v0) is TOP:
                        # a snapshot of an enumerated subject: opaque tests on the local are keyed by the subject's text while
                        # the subject has not been re-assigned since
                        self._key_alias[st.targets[0].id] = (v0, self._ver.get(norm(v0), 0))
            elif isinstance(st, ast.Assign) and len(st.targets) == 1 and isinstance(st.targets[0], ast.Tuple) and isinstance(st.value, ast.Tuple) and len(st.targets[0].elts) == len(st.value.elts) and all(isinstance(t, ast.Name) for t in st.targets[0].elts) and not any(self._is_effect(v) for v in st.value.elts):
                # a, b = x, y : element-wise (all right-hand sides are evaluated before any name is bound)
                vals = []
                for v0 in st.value.elts:
                    if isinstance(v0, (ast.Attribute, ast.Subscript)) and self._const(v0) is TOP and self._subject_value(v0) is TOP:
                        vals.append(("expr", v0))
                    else:
                        vals.append(self._val(v0))
                for t, v in zip(st.targets[0].elts, vals):
                    self._loc[t.id] = v  # type: ignore[attr-defined]
            elif isinstance(st, ast.AnnAssign) and isinstance(st.target, ast.Name) and st.value is not None and not self._is_effect(st.value):
                v0 = st.value
                if isinstance(v0, (ast.Attribute, ast.Subscript)) and self._const(v0) is TOP and self._subject_value(v0) is TOP:
                    self._loc[st.target.id] = ("expr", v0)
                else:
                    self._loc[st.target.id] = self._val(v0)
            elif isinstance(st, (ast.Assign, ast.AnnAssign, ast.AugAssign)) and getattr(st, "value", None) is not None:
                # the value is a call/await (an effect with an unknown result), or the target is not a plain local: every target
                # becomes a fresh opaque value - later tests on it are new atoms, distinct from tests made before this point
                if self._is_effect(st.value):
                    self._effects.append(norm(st.value.value if isinstance(st.value, ast.Await) else st.value))
                tgts = st.targets if isinstance(st, ast.Assign) else [st.target]
                for t in tgts:
                    for el in (t.elts if isinstance(t, (ast.Tuple, ast.List)) else [t]):
                        if isinstance(el, ast.Starred):
                            el = el.value
                        if isinstance(el, ast.Name):
                            if self._is_effect(st.value) or isinstance(t, (ast.Tuple, ast.List)):
                                self._loc[el.id] = ("opaque", f"{el.id}@{getattr(st, 'lineno', 0)}")
                            else:
                                self._loc[el.id] = self._val(st.value)
                        else:
                            k = norm(el)
                            self._ver[k] = self._ver.get(k, 0) + 1
                            self._env.pop(k, None)
            elif isinstance(st, ast.For):
                it = st.iter
                # dict.fromkeys((a, b)) / set((a, b)) / tuple((a, b)): the elements, possibly de-duplicated (the body is a
                # function of the element alone, so evaluating a duplicate twice does not change a decision)
                if isinstance(it, ast.Call) and norm(it.func) in ("dict.fromkeys", "set", "tuple", "list", "sorted", "frozenset") and len(it.args) == 1:
                    it = it.args[0]
                if not isinstance(it, (ast.Tuple, ast.List)):
                    raise Unsupported(f"loop over {norm(it)[:40]}")
                for el in it.elts:
                    self._bind(st.target, el)
                    try:
                        self._block(st.body)
                    except _Continue:
                        continue
                    except _Break:
                        break
                else:
                    self._block(st.orelse)
            elif isinstance(st, ast.Try):
                # the table describes the paths on which nothing raises inside the try: body, else-suite, finally-suite; the
                # handlers' paths are exceptional and are not rows (stated in the table's notes)
                self.notes.add("try: handlers not evaluated (rows are the non-raising paths)")
                try:
                    self._block(st.body)
                    self._block(st.orelse)
                except (_Return, _Continue, _Break):
                    self._block(st.finalbody)
                    raise
                self._block(st.finalbody)
            elif isinstance(st, (ast.With, ast.AsyncWith)):
                for it_ in st.items:
                    if self._is_effect(it_.context_expr):
                        self._effects.append(norm(it_.context_expr))
                self._block(st.body)
            elif isinstance(st, ast.AnnAssign) and st.value is None:
                continue  # a bare annotation
            elif isinstance(st, ast.Continue):
                raise _Continue()
            elif isinstance(st, ast.Break):
                raise _Break()
            elif isinstance(st, (ast.Pass, ast.Expr, ast.Assert, ast.FunctionDef, ast.AsyncFunctionDef, ast.Nonlocal, ast.Global, ast.Raise)):
                if isinstance(st, ast.Raise):
                    raise _Return(("raise", norm(st.exc)[:60] if st.exc is not None else ""))
                if isinstance(st, ast.Expr) and self._is_effect(st.value):
                    self._effects.append(norm(st.value.value if isinstance(st.value, ast.Await) else st.value))
                continue
            else:
                raise Unsupported(f"statement {type(st).__name__}: {norm(st)[:50]}")

    @staticmethod
    def _is_effect(v: ast.expr | None) -> bool:
        return isinstance(v, ast.Await) or (isinstance(v, ast.Call) and not (isinstance(v.func, ast.Name) and v.func.id in ("int", "str", "bool", "len", "float", "tuple", "list", "dict", "set", "isinstance", "min", "max", "abs")))

    def _bind(self, target: ast.expr, el: ast.expr) -> None:
        if isinstance(target, ast.Name):
            # the loop variable stands for the element *expression* (a subject), e.g. src_id / dst_id
            self._loc[target.id] = ("expr", el)
        else:
            raise Unsupported("tuple loop target")

    def _subject_value(self, e: ast.expr) -> Any:
        """Abstract value of a non-constant expression: its enumerated value, or TOP (opaque)."""
        if isinstance(e, ast.Name) and e.id in self._loc:
            v = self._loc[e.id]
            if isinstance(v, tuple) and len(v) == 2 and v[0] == "expr":
                return self._subject_value(v[1])
            if isinstance(v, tuple) and len(v) == 2 and v[0] == "opaque":
                return TOP
            return v
        key = norm(e)
        if key in self._env and not self._ver.get(key):
            return self._env[key]
        return TOP

    def _val(self, e: ast.expr | None) -> Any:
        if e is None:
            return None
        c = self._const(e) if not (isinstance(e, ast.Name) and e.id in self._loc) else TOP
        if c is not TOP:
            return c
        if isinstance(e, (ast.BoolOp, ast.Compare)) or (isinstance(e, ast.UnaryOp) and isinstance(e.op, ast.Not)):
            return self._truth(e)
        if isinstance(e, ast.IfExp):
            return self._val(e.body) if self._truth(e.test) else self._val(e.orelse)
        if isinstance(e, (ast.Tuple, ast.List)):
            return tuple(self._val(x) for x in e.elts)
        v = self._subject_value(e)
        if v is not TOP:
            return v
        return self._atom(e)

    def _atom_key(self, e: ast.expr) -> str:
        """Normalised text, with opaque locals replaced by their binding site and re-assigned attributes by their version."""
        subst = {k: v[1] for k, v in self._loc.items() if isinstance(v, tuple) and len(v) == 2 and v[0] == "expr"}
        for k, (v0, ver0) in self._key_alias.items():
            if k not in subst and self._ver.get(norm(v0), 0) == ver0:
                subst[k] = v0
        ck = (id(e), tuple(sorted((k, id(v)) for k, v in subst.items())), tuple(sorted(self._ver.items())), tuple(sorted((k, v[1]) for k, v in self._loc.items() if isinstance(v, tuple) and len(v) == 2 and v[0] == "opaque")))
        if ck in self._key_cache:
            return self._key_cache[ck]
        self._keep.append(e)
        key = self._atom_key_raw(e, subst)
        self._key_cache[ck] = key
        return key

    def _atom_key_raw(self, e: ast.expr, subst: dict) -> str:
        if subst and any(isinstance(n, ast.Name) and n.id in subst for n in ast.walk(e)):
            e = _clone(e, subst)
        key = norm(e)
        tags = []
        for n in ast.walk(e):
            if isinstance(n, ast.Name) and n.id in self._loc:
                v = self._loc[n.id]
                if isinstance(v, tuple) and len(v) == 2 and v[0] == "opaque":
                    tags.append(v[1])
            elif isinstance(n, (ast.Attribute, ast.Subscript)) and self._ver.get(norm(n)):
                tags.append(f"{norm(n)}#{self._ver[norm(n)]}")
        return key + (" {" + ", ".join(sorted(set(tags))) + "}" if tags else "")

    def _atom(self, e: ast.expr) -> bool:
        key = self._atom_key(e)
        if key in self._aenv:
            return self._aenv[key]
        raise _NeedAtom(key)

    def _truth(self, e: ast.expr) -> bool:
        if isinstance(e, ast.BoolOp):
            if isinstance(e.op, ast.And):
                return all(self._truth(v) for v in e.values)  # short-circuit like python
            return any(self._truth(v) for v in e.values)
        if isinstance(e, ast.UnaryOp) and isinstance(e.op, ast.Not):
            return not self._truth(e.operand)
        if isinstance(e, ast.Compare):
            left = e.left
            for op, right in zip(e.ops, e.comparators):
                if not self._cmp(left, op, right):
                    return False
                left = right
            return True
        if isinstance(e, ast.Name) and isinstance(self._loc.get(e.id), tuple) and self._loc[e.id][:1] == ("opaque",):
            return self._atom(e)
        if isinstance(e, ast.Call) and isinstance(e.func, ast.Name) and e.func.id == "bool" and len(e.args) == 1 and not e.keywords:
            return self._truth(e.args[0])
        v = self._val(e) if not isinstance(e, (ast.Call, ast.Attribute, ast.Subscript)) or norm(e) in self._env or (isinstance(e, ast.Name)) else None
        if isinstance(e, (ast.Call, ast.Attribute, ast.Subscript)) and norm(e) not in self._env:
            c = self._const(e)
            if c is not TOP:
                return bool(c)
            return self._atom(e)
        if v == OTHER:
            return True  # an unknown non-constant value of a subject: truthy (ids, codes are non-empty strings)
        return bool(v)

    def _cmp_atom(self, left: ast.expr, op: ast.cmpop, right: ast.expr) -> bool:
        """An opaque comparison: `a != b`, `a is not b`, `a not in b` are the negations of the atoms `a == b`, `a is b`, `a in b`
        (so a test and its negated spelling are one atom, not two independent ones)."""
        flip = {ast.NotEq: ast.Eq, ast.IsNot: ast.Is, ast.NotIn: ast.In}
        for neg, pos in flip.items():
            if isinstance(op, neg):
                return not self._atom(self._mk_cmp(left, pos(), right))
        return self._atom(self._mk_cmp(left, op, right))

    def _mk_cmp(self, left: ast.expr, op: ast.cmpop, right: ast.expr) -> ast.Compare:
        k = (id(left), type(op).__name__, id(right))
        c = self._cmp_nodes.get(k)
        if c is None:
            c = self._cmp_nodes[k] = ast.Compare(left=left, ops=[op], comparators=[right])
        return c

    def _cmp(self, left: ast.expr, op: ast.cmpop, right: ast.expr) -> bool:
        lv, rv = self._operand(left), self._operand(right)
        if lv is TOP or rv is TOP:
            # one side is opaque: the whole comparison is an opaque atom
            return self._cmp_atom(left, op, right)
        if isinstance(op, (ast.Eq, ast.Is)):
            return self._eq(lv, rv)
        if isinstance(op, (ast.NotEq, ast.IsNot)):
            return not self._eq(lv, rv)
        if isinstance(op, (ast.In, ast.NotIn)):
            if not isinstance(rv, tuple):
                return self._cmp_atom(left, op, right)
            res = any(self._eq(lv, x) for x in rv)
            return res if isinstance(op, ast.In) else not res
        return self._cmp_atom(left, op, right)

    @staticmethod
    def _eq(a: Any, b: Any) -> bool:
        if a == OTHER or b == OTHER:
            return False if not (a == OTHER and b == OTHER) else False
        return a == b

    def _operand(self, e: ast.expr) -> Any:
        if isinstance(e, ast.Name) and e.id in self._loc:
            return self._subject_value(e)
        c = self._const(e)
        if c is not TOP:
            return c
        return self._subject_value(e)
