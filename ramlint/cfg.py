"""E5 - per-function statement-level control-flow graph with exceptional edges.

Nodes are simple statements and the headers of compound statements (if/while tests, for
iterators, with-enter). Every may-raise node has exceptional edges to the innermost
matching handler or to the function's exceptional exit; `finally` bodies are duplicated
per continuation (normal / exception / return / break / continue), so "all paths" queries
see them on every exit. A cancellation edge leaves every node that contains an `await`.
"""

from __future__ import annotations

import ast
from dataclasses import dataclass, field
from typing import Callable

CANCELLED = "asyncio.exceptions.CancelledError"


@dataclass(eq=False)
class Node:
    id: int
    kind: str  # entry | exit | raise_exit | stmt | test | iter | with | handler | join
    ast: ast.AST | None = None
    label: str = ""

    @property
    def line(self) -> int:
        return getattr(self.ast, "lineno", 0) if self.ast is not None else 0

    def __repr__(self) -> str:
        t = ""
        if self.ast is not None:
            try:
                t = " ".join(ast.unparse(self.ast).split())[:60]
            except Exception:
                t = type(self.ast).__name__
        return f"<{self.id}:{self.kind}@{self.line} {t}>"


@dataclass
class _Frame:
    kind: str  # try | finally | loop | with_suppress
    node: ast.AST
    handlers: list[tuple[list[str], int]] = field(default_factory=list)  # (classes, handler entry node id)
    finalbody: list[ast.stmt] | None = None
    brk: int | None = None
    cont: int | None = None
    suppress: list[str] = field(default_factory=list)
    after: int | None = None


class CFG:
    def __init__(
        self,
        func: ast.FunctionDef | ast.AsyncFunctionDef,
        raises: Callable[[ast.AST], set[str]],
        is_sub: Callable[[str, str], bool],
        handler_classes: Callable[[ast.ExceptHandler], list[str]],
        suppress_classes: Callable[[ast.With | ast.AsyncWith], list[str]] | None = None,
        cancellation: bool = True,
    ) -> None:
        self.func = func
        self.raises = raises
        self.is_sub = is_sub
        self.handler_classes = handler_classes
        self.suppress_classes = suppress_classes or (lambda w: [])
        self.cancellation = cancellation
        self.nodes: list[Node] = []
        self.succ: dict[int, list[tuple[int, str]]] = {}
        self.pred: dict[int, list[tuple[int, str]]] = {}
        self.by_ast: dict[int, list[Node]] = {}
        self.entry = self._new("entry")
        self.exit = self._new("exit")
        self.rexit = self._new("raise_exit")
        self.escapes: dict[str, list[Node]] = {}  # class -> nodes it escapes from
        outs = self._body(func.body, [self.entry.id], [])
        for o in outs:
            self._edge(o, self.exit.id, "fallthrough")

    # -- construction --------------------------------------------------------------------

    def _new(self, kind: str, node: ast.AST | None = None, label: str = "") -> Node:
        n = Node(len(self.nodes), kind, node, label)
        self.nodes.append(n)
        self.succ[n.id] = []
        self.pred[n.id] = []
        if node is not None:
            self.by_ast.setdefault(id(node), []).append(n)
        return n

    def _edge(self, a: int, b: int, label: str = "next") -> None:
        if (b, label) not in self.succ[a]:
            self.succ[a].append((b, label))
            self.pred[b].append((a, label))

    def _link(self, preds: list[int], b: int, label: str = "next") -> None:
        for p in preds:
            self._edge(p, b, label)

    def _body(self, body: list[ast.stmt], preds: list[int], frames: list[_Frame]) -> list[int]:
        for st in body:
            preds = self._stmt(st, preds, frames)
        return preds

    def _exc_edges(self, n: Node, expr: ast.AST, frames: list[_Frame]) -> None:
        classes = set(self.raises(expr))
        if self.cancellation and _has_await(expr):
            classes.add(CANCELLED)
        for c in sorted(classes):
            self._throw(n.id, c, frames, f"exc:{c.rsplit('.', 1)[-1]}")

    def _throw(self, src: int, cls: str, frames: list[_Frame], label: str) -> None:
        """Route exception `cls` from node `src` outwards through the frames."""
        cur = [src]
        lab = label
        i = len(frames) - 1
        while i >= 0:
            fr = frames[i]
            if fr.kind == "try":
                definitely = False
                for hcls, hid in fr.handlers:
                    hit = False
                    for hc in hcls:
                        if self.is_sub(cls, hc):
                            hit = definitely = True
                            break
                        if self.is_sub(hc, cls):
                            hit = True
                    if hit:
                        self._link(cur, hid, lab)
                    if definitely:
                        break
                if definitely:
                    return
            elif fr.kind == "with_suppress":
                if any(self.is_sub(cls, s) for s in fr.suppress) and fr.after is not None:
                    self._link(cur, fr.after, lab)
                    return
            elif fr.kind == "finally":
                assert fr.finalbody is not None
                j = self._new("join", fr.node, "finally(exc)")
                self._link(cur, j.id, lab)
                cur = self._body(fr.finalbody, [j.id], frames[:i])
                lab = "reraise"
                if not cur:
                    return
            i -= 1
        self._link(cur, self.rexit.id, lab)
        for c in cur:
            self.escapes.setdefault(cls, []).append(self.nodes[src])

    def _jump(self, src: list[int], kind: str, frames: list[_Frame]) -> None:
        """return / break / continue: run enclosing finally bodies on the way."""
        cur = src
        lab = kind
        i = len(frames) - 1
        while i >= 0:
            fr = frames[i]
            if fr.kind == "finally":
                assert fr.finalbody is not None
                j = self._new("join", fr.node, f"finally({kind})")
                self._link(cur, j.id, lab)
                cur = self._body(fr.finalbody, [j.id], frames[:i])
                lab = "next"
                if not cur:
                    return
            elif fr.kind == "loop" and kind in ("break", "continue"):
                tgt = fr.brk if kind == "break" else fr.cont
                assert tgt is not None
                self._link(cur, tgt, lab)
                return
            i -= 1
        self._link(cur, self.exit.id, lab if lab != "next" else "return")

    def _stmt(self, st: ast.stmt, preds: list[int], frames: list[_Frame]) -> list[int]:
        if not preds:
            return []
        if isinstance(st, (ast.FunctionDef, ast.AsyncFunctionDef, ast.ClassDef)):
            n = self._new("stmt", st, "def")
            self._link(preds, n.id)
            return [n.id]
        if isinstance(st, ast.If):
            t = self._new("test", st.test)
            t.stmt = st  # type: ignore[attr-defined]
            self._link(preds, t.id)
            self._exc_edges(t, st.test, frames)
            a = self._new("join", st, "then")
            self._edge(t.id, a.id, "true")
            outs = self._body(st.body, [a.id], frames)
            b = self._new("join", st, "else")
            self._edge(t.id, b.id, "false")
            outs2 = self._body(st.orelse, [b.id], frames)
            return outs + outs2
        if isinstance(st, ast.While):
            t = self._new("test", st.test)
            t.stmt = st  # type: ignore[attr-defined]
            self._link(preds, t.id)
            self._exc_edges(t, st.test, frames)
            after = self._new("join", st, "after-loop")
            fr = _Frame("loop", st, brk=after.id, cont=t.id)
            a = self._new("join", st, "body")
            self._edge(t.id, a.id, "true")
            outs = self._body(st.body, [a.id], frames + [fr])
            self._link(outs, t.id, "loop")
            is_forever = isinstance(st.test, ast.Constant) and bool(st.test.value)
            if not is_forever:
                b = self._new("join", st, "else")
                self._edge(t.id, b.id, "false")
                outs2 = self._body(st.orelse, [b.id], frames)
                self._link(outs2, after.id)
            return [after.id] if self.pred[after.id] else []
        if isinstance(st, (ast.For, ast.AsyncFor)):
            it = self._new("iter", st.iter)
            it.stmt = st  # type: ignore[attr-defined]
            self._link(preds, it.id)
            self._exc_edges(it, st.iter, frames)
            if isinstance(st, ast.AsyncFor) and self.cancellation:
                self._throw(it.id, CANCELLED, frames, "exc:CancelledError")
            after = self._new("join", st, "after-loop")
            fr = _Frame("loop", st, brk=after.id, cont=it.id)
            a = self._new("join", st, "body")
            self._edge(it.id, a.id, "true")
            outs = self._body(st.body, [a.id], frames + [fr])
            self._link(outs, it.id, "loop")
            b = self._new("join", st, "else")
            self._edge(it.id, b.id, "false")
            outs2 = self._body(st.orelse, [b.id], frames)
            self._link(outs2, after.id)
            return [after.id]
        if isinstance(st, (ast.With, ast.AsyncWith)):
            w = self._new("with", st)
            self._link(preds, w.id)
            for item in st.items:
                self._exc_edges(w, item.context_expr, frames)
            if isinstance(st, ast.AsyncWith) and self.cancellation:
                self._throw(w.id, CANCELLED, frames, "exc:CancelledError")
            sup = self.suppress_classes(st)
            if sup:
                after = self._new("join", st, "after-with")
                fr = _Frame("with_suppress", st, suppress=sup, after=after.id)
                outs = self._body(st.body, [w.id], frames + [fr])
                self._link(outs, after.id)
                return [after.id]
            return self._body(st.body, [w.id], frames)
        if isinstance(st, ast.Try):
            inner_frames = list(frames)
            fin: _Frame | None = None
            if st.finalbody:
                fin = _Frame("finally", st, finalbody=st.finalbody)
                inner_frames = inner_frames + [fin]
            tryfr = _Frame("try", st)
            # handler entries are created first so that raises in the body can target them
            hnodes = []
            for h in st.handlers:
                hn = self._new("handler", h)
                hnodes.append(hn)
                tryfr.handlers.append((self.handler_classes(h), hn.id))
            outs = self._body(st.body, preds, inner_frames + [tryfr])
            outs = self._body(st.orelse, outs, inner_frames)
            for h, hn in zip(st.handlers, hnodes):
                if self.pred[hn.id]:
                    outs = outs + self._body(h.body, [hn.id], inner_frames)
            if fin is not None:
                if not outs:
                    return []
                j = self._new("join", st, "finally(normal)")
                self._link(outs, j.id)
                return self._body(st.finalbody, [j.id], frames)
            return outs
        if isinstance(st, ast.Return):
            n = self._new("stmt", st, "return")
            self._link(preds, n.id)
            if st.value is not None:
                self._exc_edges(n, st.value, frames)
            self._jump([n.id], "return", frames)
            return []
        if isinstance(st, ast.Raise):
            n = self._new("stmt", st, "raise")
            self._link(preds, n.id)
            self._exc_edges(n, st, frames)
            return []
        if isinstance(st, ast.Break):
            n = self._new("stmt", st, "break")
            self._link(preds, n.id)
            self._jump([n.id], "break", frames)
            return []
        if isinstance(st, ast.Continue):
            n = self._new("stmt", st, "continue")
            self._link(preds, n.id)
            self._jump([n.id], "continue", frames)
            return []
        if isinstance(st, ast.Match):
            n = self._new("test", st.subject)
            self._link(preds, n.id)
            self._exc_edges(n, st.subject, frames)
            outs: list[int] = [n.id]
            for c in st.cases:
                a = self._new("join", c, "case")
                self._edge(n.id, a.id, "true")
                outs += self._body(c.body, [a.id], frames)
            return outs
        # simple statement (incl. assert)
        n = self._new("stmt", st)
        self._link(preds, n.id)
        self._exc_edges(n, st, frames)
        return [n.id]

    # -- queries ------------------------------------------------------------------------

    def nodes_of(self, node: ast.AST) -> list[Node]:
        return self.by_ast.get(id(node), [])

    def stmt_nodes(self) -> list[Node]:
        return [n for n in self.nodes if n.kind in ("stmt", "test", "iter", "with")]

    def find(self, pred: Callable[[Node], bool]) -> list[Node]:
        return [n for n in self.nodes if n.ast is not None and n.kind != "join" and pred(n)]

    def reachable_from(self, start: int, avoid: Callable[[Node], bool] | None = None, labels: Callable[[str], bool] | None = None) -> set[int]:
        seen = {start}
        todo = [start]
        while todo:
            x = todo.pop()
            for y, lab in self.succ[x]:
                if labels is not None and not labels(lab):
                    continue
                if y in seen:
                    continue
                if avoid is not None and avoid(self.nodes[y]):
                    continue
                seen.add(y)
                todo.append(y)
        return seen

    def exits_reachable_without(self, start: int, passing: Callable[[Node], bool], skip_start_exc: bool = True, edge_ok: Callable[[Node, str], bool] | None = None) -> list[tuple[Node, list[Node], list[str]]]:
        """Exits reachable from `start` along paths that never pass a node satisfying `passing`.

        Returns (exit node, witness path) pairs. Used for "every path from A to any exit passes B".
        """
        out = []
        parent: dict[int, int | None] = {start: None}
        elabel: dict[int, str] = {}
        todo = [start]
        while todo:
            x = todo.pop(0)
            for y, lab in self.succ[x]:
                if y in parent:
                    continue
                if x == start and skip_start_exc and lab.startswith("exc:"):
                    continue  # the opening call itself failed: nothing was opened
                if edge_ok is not None and not edge_ok(self.nodes[x], lab):
                    continue
                ny = self.nodes[y]
                if ny.kind not in ("exit", "raise_exit") and passing(ny):
                    continue
                parent[y] = x
                elabel[y] = lab
                if ny.kind in ("exit", "raise_exit"):
                    path = []
                    c: int | None = y
                    while c is not None:
                        path.append(self.nodes[c])
                        c = parent[c]
                    out.append((ny, list(reversed(path)), [elabel.get(p.id, "") for p in reversed(path)]))
                    continue
                todo.append(y)
        return out

    def dominators(self) -> dict[int, set[int]]:
        if hasattr(self, "_dom"):
            return self._dom  # type: ignore[has-type]
        reach = self.reachable_from(self.entry.id)
        ids = [i for i in sorted(reach)]
        dom = {i: set(ids) for i in ids}
        dom[self.entry.id] = {self.entry.id}
        changed = True
        while changed:
            changed = False
            for i in ids:
                if i == self.entry.id:
                    continue
                ps = [p for p, _ in self.pred[i] if p in reach]
                new = set.intersection(*(dom[p] for p in ps)) if ps else set()
                new = new | {i}
                if new != dom[i]:
                    dom[i] = new
                    changed = True
        self._dom = dom
        return dom

    def dominated_by(self, target: Node, guard: Callable[[Node], bool]) -> list[Node]:
        dom = self.dominators().get(target.id, set())
        return [self.nodes[d] for d in dom if d != target.id and guard(self.nodes[d])]

    def edge_dominates(self, test: Node, label: str, target: Node) -> bool:
        """Does every path from entry to `target` traverse the `label` out-edge of `test`?"""
        # remove that edge and see whether target is still reachable
        tgt = [y for y, lab in self.succ[test.id] if lab == label]
        if not tgt:
            return False
        seen = {self.entry.id}
        todo = [self.entry.id]
        while todo:
            x = todo.pop()
            for y, lab in self.succ[x]:
                if x == test.id and lab == label:
                    continue
                if y not in seen:
                    seen.add(y)
                    todo.append(y)
        return target.id not in seen

    def reachable(self, n: Node) -> bool:
        return n.id in self.reachable_from(self.entry.id)


def _has_await(node: ast.AST) -> bool:
    stack = [node]
    while stack:
        n = stack.pop()
        if isinstance(n, (ast.Await, ast.AsyncFor, ast.AsyncWith)):
            return True
        if isinstance(n, (ast.FunctionDef, ast.AsyncFunctionDef, ast.Lambda, ast.ClassDef)) and n is not node:
            continue
        stack.extend(ast.iter_child_nodes(n))
    return False
