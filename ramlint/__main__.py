"""CLI: python -m ramlint {setup | check <id> [--tier quick|thorough] | replay <path> | selftest ...}"""

from __future__ import annotations

import argparse
import importlib
import json
import os
import sys
import time
import traceback

from . import REPO, VERIF
from .loader import AnalysisError

COMMON_ASSUMPTIONS = [
    "static analysis of /repo/src as text: nothing from ramses_tx/ramses_rf/ramses_cli is imported or run",
    "exception-effect verdicts are relative to the implicit/external raiser table (ramlint/exc.py, version in evidence); "
    "an operation not in the table is assumed not to raise",
    "not modelled: TypeError/AttributeError from ill-typed values, MemoryError, RecursionError, IndexError from sequence indexing, OSError",
    "receivers typed Any fall back to name-based resolution (over-approximate); third-party calls use documented summaries",
    "internal self-check asserts ('Coding error') are not raise sources; asserts whose test depends on received text are",
    "single event loop; no inter-thread ordering is claimed",
]
TRUSTED = ["python ast/symtable", "mypy 2.3.1 type resolution (repo's own dev dependency) as a library", "ramlint engine (loader, consteval, callgraph, cfg, exc)"]


def run_check(prop: str, tier: str, root: str, only: tuple[str, str] | None = None) -> int:
    from . import report
    from .context import Ctx

    t0 = time.time()
    seed = int(os.environ.get("VERIF_SEED", "0") or 0)
    try:
        mod = importlib.import_module(f"ramlint.props.{prop.lower()}")
    except ModuleNotFoundError:
        print(f"ANALYSIS-ERROR property={prop}: no checker module")
        return 2
    try:
        ctx = Ctx(root, tier, seed)
        results = mod.check(ctx)
        meta = dict(getattr(mod, "META", {}))
        meta.setdefault("assumptions", [])
        meta["assumptions"] = list(meta["assumptions"]) + COMMON_ASSUMPTIONS
        meta.setdefault("trusted_base", TRUSTED)
        meta["checker_cmd"] = f"/venv/bin/python -m ramlint check {prop} --tier {tier}"
        stats = dict(ctx.stats)
        stats.update(modules=len(ctx.repo.modules), functions=len(ctx.repo.funcs), classes=len(ctx.repo.classes), source_digest=ctx.repo.digest[:16])
        from .exc import TABLE_VERSION

        stats["implicit_raiser_table_version"] = TABLE_VERSION
        return report.finish(prop, tier, seed, results, t0, stats, meta, only=only, write=os.path.realpath(root) == os.path.realpath(REPO))
    except AnalysisError as err:
        print(f"ANALYSIS-ERROR property={prop}: {err}")
        return 2
    except Exception:  # a traceback is never a verdict
        tb = traceback.format_exc()
        print(f"ANALYSIS-ERROR property={prop}: internal error\n{tb}")
        return 2


def main(argv: list[str] | None = None) -> int:
    ap = argparse.ArgumentParser(prog="ramlint")
    sub = ap.add_subparsers(dest="cmd", required=True)
    sub.add_parser("setup")
    c = sub.add_parser("check")
    c.add_argument("prop")
    c.add_argument("--tier", default=os.environ.get("VERIF_TIER", "quick"), choices=["quick", "thorough"])
    c.add_argument("--root", default=REPO)
    r = sub.add_parser("replay")
    r.add_argument("path")
    r.add_argument("--root", default=REPO)
    s = sub.add_parser("selftest")
    s.add_argument("props", nargs="*")
    s.add_argument("--jobs", type=int, default=16)
    a = sub.add_parser("all")
    a.add_argument("--tier", default="quick")
    args = ap.parse_args(argv)

    if args.cmd == "setup":
        try:
            import mypy  # noqa: F401
        except Exception as err:
            print(f"setup: mypy is not importable in this interpreter: {err}")
            return 2
        from .context import Ctx

        try:
            ctx = Ctx(REPO)
            _ = ctx.tf  # build the type facts once, so the checks start warm
        except AnalysisError as err:
            print(f"setup: {err}")
            return 2
        print(f"setup ok: {len(ctx.repo.modules)} modules, {len(ctx.repo.funcs)} functions, type facts for digest {ctx.repo.digest[:12]}")
        return 0
    if args.cmd == "check":
        rc = run_check(args.prop.upper(), args.tier, args.root)
        if rc == 0 and args.tier == "thorough":
            from . import selftest

            rc = selftest.run([args.prop.upper()], jobs=int(os.environ.get("RAMLINT_JOBS", "16")), attach_evidence=True)
        return rc
    if args.cmd == "replay":
        with open(args.path) as fh:
            v = json.load(fh)
        rc = run_check(v["property"], "quick", args.root, only=(v["rule"], v["key"]))
        return rc
    if args.cmd == "selftest":
        from . import selftest

        return selftest.run([p.upper() for p in args.props], jobs=args.jobs)
    if args.cmd == "all":
        with open(os.path.join(VERIF, "MANIFEST.json")) as fh:
            man = json.load(fh)
        worst = 0
        for chk in man["checks"]:
            rc = run_check(chk["property_id"], args.tier, REPO)
            worst = max(worst, rc)
        return worst
    return 2


if __name__ == "__main__":
    sys.stdout.reconfigure(line_buffering=True)  # type: ignore[attr-defined]
    code = main()
    sys.stdout.flush()
    os._exit(code)
