"""E2 - constant evaluator: folds the repository's module-level tables from source text.

A small interpreter over the *syntax* of module-level statements (assignments, loops and
updates that complete tables, Enum classes, f-strings, comprehensions, re.compile).
It never imports the repository: values are rebuilt from literals in the source.
Anything it cannot fold is TOP; rules that need such a value fail closed (exit 2).
"""

from __future__ import annotations

import ast
import datetime as _dt
import hashlib
from typing import Any

from .loader import AnalysisError, FuncInfo, Module, Repo, norm


class _Top:
    def __repr__(self) -> str:
        return "TOP"

    def __bool__(self) -> bool:
        raise AnalysisError("truth value of an unfoldable constant")


TOP = _Top()


class RegexConst:
    def __init__(self, pattern: str, flags: int = 0) -> None:
        self.pattern = pattern
        self.flags = flags

    def __repr__(self) -> str:
        return f"re({self.pattern!r})"


class EnumClass:
    def __init__(self, name: str, kind: str, members: dict[str, Any]) -> None:
        self.name = name
        self.kind = kind  # StrEnum | IntEnum | Enum
        self.members = members

    def __iter__(self):
        return iter(self.members.values())

    def __repr__(self) -> str:
        return f"<enum {self.name} {len(self.members)}>"


class ClassConst:
    def __init__(self, name: str, attrs: dict[str, Any]) -> None:
        self.name = name
        self.attrs = attrs

    def __repr__(self) -> str:
        return f"<class {self.name}>"


class FuncRef:
    def __init__(self, module: str, name: str, node: ast.AST) -> None:
        self.module = module
        self.name = name
        self.node = node

    def __repr__(self) -> str:
        return f"<func {self.module}.{self.name}>"


class Namespace:
    def __init__(self, attrs: dict[str, Any]) -> None:
        self.attrs = attrs


class AttrDictConst(dict):
    """Hand-written summary of ramses_tx.const.AttrDict (guarded by a digest of its source)."""

    def __init__(self, main_table: dict, attr_table: dict) -> None:
        self._main_table = main_table
        self._attr_table = dict(attr_table)
        self._attr_table["SLUGS"] = tuple(sorted(main_table.keys()))
        fwd = {k: v for table in main_table.values() for k, v in table.items() if isinstance(k, str) and k[:1] != "_"}
        self._reverse = {
            v: k for table in main_table.values() for k, v in table.items() if isinstance(k, str) and k[:1] != "_" and "_root_slug" not in table
        }
        self._forward = dict(sorted(fwd.items(), key=lambda i: i[0]))
        super().__init__(self._forward)

    def getattr(self, name: str) -> Any:
        if name in self._main_table:
            r = list(self._main_table[name].keys())[0]
            if r is not None:
                return r
            return TOP
        if name in self._attr_table:
            return self._attr_table[name]
        if len(name) and name[1:] in self._forward:
            return self._forward[name[1:]]
        if name.isupper() and name.lower() in self._reverse:
            return self.getitem(name.lower())
        return TOP

    def getitem(self, key: Any) -> Any:
        if key in self._main_table:
            return list(self._main_table[key].values())[0]
        if key in self._reverse:
            return self._reverse[key]
        if key in self._forward:
            return self._forward[key]
        return TOP

    def _hex(self, key: Any) -> Any:
        if key in self._main_table:
            return list(self._main_table[key].keys())[0]
        return self._reverse.get(key, TOP)


# digest of the AttrDict methods the summary above mirrors (normalised ast text)
_ATTRDICT_METHODS = ("__init__", "__getitem__", "__getattr__", "_hex")
_ATTRDICT_DIGEST = None  # filled on first use; compared against the recorded value below
ATTRDICT_EXPECTED = "ab2dceff"  # updated by `ramlint setup --record` after re-reading the class

_SAFE_TYPES = (str, int, float, bool, dict, list, tuple, set, frozenset, bytes, type(None), _dt.timedelta)
_BUILTINS: dict[str, Any] = {
    "len": len, "range": range, "str": str, "int": int, "float": float, "bool": bool, "min": min, "max": max,
    "sum": sum, "sorted": sorted, "tuple": tuple, "list": list, "dict": dict, "set": set, "frozenset": frozenset,
    "enumerate": enumerate, "zip": zip, "abs": abs, "round": round, "reversed": reversed, "any": any, "all": all,
    "hex": hex, "chr": chr, "ord": ord, "divmod": divmod, "repr": repr, "bytes": bytes,
}


class ConstEnv:
    def __init__(self, repo: Repo) -> None:
        self.repo = repo
        self._mods: dict[str, dict[str, Any]] = {}
        self._busy: set[str] = set()
        self.attrdict_ok: bool | None = None

    # -- public ---------------------------------------------------------------------

    def get(self, module: str, name: str) -> Any:
        env = self._module_env(module)
        v = env.get(name, TOP)
        depth = 0
        while isinstance(v, _Lazy) and depth < 10:  # re-export chains
            v = v.force()
            depth += 1
        if isinstance(v, _Lazy):
            return TOP
        if name in env and env[name] is not v:
            env[name] = v
        return v

    def need(self, module: str, name: str) -> Any:
        v = self.get(module, name)
        if v is TOP:
            raise AnalysisError(f"constant {module}.{name} cannot be folded from source")
        return v

    def eval_in(self, f: FuncInfo | Module, e: ast.expr, local: dict[str, Any] | None = None) -> Any:
        mod = f.module if isinstance(f, FuncInfo) else f
        env = dict(self._module_env(mod.name))
        if isinstance(f, FuncInfo):
            env.update(self.func_locals(f))
        if local:
            env.update(local)
        return self._eval(e, env, mod)

    def func_locals(self, f: FuncInfo) -> dict[str, Any]:
        """Names assigned exactly once in the function (and its enclosing functions) to a foldable value."""
        if not hasattr(self, "_fl_cache"):
            self._fl_cache: dict[int, dict[str, Any]] = {}
        if id(f) in self._fl_cache:
            return self._fl_cache[id(f)]
        chain = []
        fn: FuncInfo | None = f
        while fn is not None:
            chain.append(fn)
            fn = fn.parent
        env = dict(self._module_env(f.module.name))
        out: dict[str, Any] = {}
        for fn in reversed(chain):
            counts: dict[str, int] = {}
            vals: dict[str, ast.expr] = {}
            for n in ast.walk(fn.node):
                if isinstance(n, (ast.Assign, ast.AnnAssign)) and n.value is not None:
                    tgts = n.targets if isinstance(n, ast.Assign) else [n.target]
                    for t in tgts:
                        if isinstance(t, ast.Name):
                            counts[t.id] = counts.get(t.id, 0) + 1
                            vals[t.id] = n.value
                        else:
                            for nm in ast.walk(t):
                                if isinstance(nm, ast.Name) and isinstance(nm.ctx, ast.Store):
                                    counts[nm.id] = counts.get(nm.id, 0) + 2
                elif isinstance(n, (ast.AugAssign, ast.For, ast.NamedExpr, ast.comprehension)):
                    tgt = n.target
                    for nm in ast.walk(tgt):
                        if isinstance(nm, ast.Name) and isinstance(nm.ctx, ast.Store):
                            counts[nm.id] = counts.get(nm.id, 0) + 2
                elif isinstance(n, (ast.Nonlocal, ast.Global)):
                    for nm in n.names:
                        counts[nm] = counts.get(nm, 0) + 2
            params = {a.arg for a in fn.node.args.posonlyargs + fn.node.args.args + fn.node.args.kwonlyargs}
            for p in params:
                env[p] = TOP
                out[p] = TOP
            for name, c in counts.items():
                if c == 1 and name not in params:
                    try:
                        v = self._eval(vals[name], env, fn.module)
                    except AnalysisError:
                        v = TOP
                    env[name] = v
                    out[name] = v
                else:
                    env[name] = TOP
                    out[name] = TOP
        self._fl_cache[id(f)] = out
        return out

    def check_attrdict(self) -> None:
        """Fail closed if AttrDict's source no longer matches the summary."""
        if self.attrdict_ok is None:
            ci = self.repo.classes.get("ramses_tx.const.AttrDict")
            if ci is None:
                raise AnalysisError("anchor class not found: ramses_tx.const.AttrDict")
            h = hashlib.sha256()
            for m in _ATTRDICT_METHODS:
                if m not in ci.methods:
                    raise AnalysisError(f"AttrDict.{m} not found")
                h.update(norm(ci.methods[m].node).encode())
            self.attrdict_digest = h.hexdigest()[:8]
            self.attrdict_ok = self.attrdict_digest == ATTRDICT_EXPECTED
        if not self.attrdict_ok:
            raise AnalysisError(
                f"ramses_tx.const.AttrDict changed (digest {self.attrdict_digest} != {ATTRDICT_EXPECTED}): "
                "the evaluator's summary of it must be re-confirmed"
            )

    # -- module evaluation ------------------------------------------------------------

    def _module_env(self, module: str) -> dict[str, Any]:
        if module in self._mods:
            return self._mods[module]
        if module not in self.repo.modules:
            return {}
        env: dict[str, Any] = {}
        self._mods[module] = env
        if module in self._busy:
            return env
        self._busy.add(module)
        m = self.repo.modules[module]
        self._exec_block(m.tree.body, env, m)
        self._busy.discard(module)
        return env

    def _exec_block(self, body: list[ast.stmt], env: dict[str, Any], m: Module) -> None:
        for st in body:
            try:
                self._exec(st, env, m)
            except AnalysisError:
                for n in ast.walk(st):
                    if isinstance(n, ast.Name) and isinstance(n.ctx, ast.Store):
                        env[n.id] = TOP

    def _exec(self, st: ast.stmt, env: dict[str, Any], m: Module) -> None:
        if isinstance(st, ast.Assign):
            v = self._eval(st.value, env, m)
            for t in st.targets:
                self._assign(t, v, env, m)
        elif isinstance(st, ast.AnnAssign):
            if st.value is not None:
                self._assign(st.target, self._eval(st.value, env, m), env, m)
        elif isinstance(st, ast.AugAssign):
            cur = self._eval(_load(st.target), env, m)
            rhs = self._eval(st.value, env, m)
            self._assign(st.target, self._binop(st.op, cur, rhs), env, m)
        elif isinstance(st, (ast.Import,)):
            for a in st.names:
                env[a.asname or a.name.split(".")[0]] = Namespace({"__module__": a.name})
        elif isinstance(st, ast.ImportFrom):
            for a in st.names:
                if a.name == "*":
                    continue
                tgt = m.imports.get(a.asname or a.name)
                if tgt is None:
                    continue
                if tgt in self.repo.modules:
                    env[a.asname or a.name] = Namespace({"__module__": tgt})
                    continue
                mod, _, nm = tgt.rpartition(".")
                if mod in self.repo.modules:
                    env[a.asname or a.name] = _Lazy(self, mod, nm)
                else:
                    env[a.asname or a.name] = Namespace({"__module__": tgt})
        elif isinstance(st, ast.ClassDef):
            env[st.name] = self._class(st, env, m)
        elif isinstance(st, (ast.FunctionDef, ast.AsyncFunctionDef)):
            env[st.name] = FuncRef(m.name, st.name, st)
        elif isinstance(st, ast.Expr):
            if isinstance(st.value, ast.Call):
                self._eval(st.value, env, m)  # e.g. LIST.extend(...), DICT.update(...)
        elif isinstance(st, ast.For):
            it = self._eval(st.iter, env, m)
            if it is TOP:
                raise AnalysisError("loop over an unfoldable value")
            for item in list(it):
                self._assign(st.target, item, env, m)
                try:
                    self._exec_block_strict(st.body, env, m)
                except _Break:
                    break
                except _Continue:
                    continue
        elif isinstance(st, ast.If):
            t = self._eval(st.test, env, m)
            if t is TOP:
                raise AnalysisError("branch on an unfoldable value")
            self._exec_block_strict(st.body if t else st.orelse, env, m)
        elif isinstance(st, ast.Try):
            self._exec_block_strict(st.body, env, m)
        elif isinstance(st, ast.Break):
            raise _Break()
        elif isinstance(st, ast.Continue):
            raise _Continue()
        elif isinstance(st, ast.Delete):
            for t in st.targets:
                if isinstance(t, ast.Name):
                    env.pop(t.id, None)
        elif isinstance(st, (ast.Pass, ast.Assert, ast.With, ast.Global)):
            pass

    def _exec_block_strict(self, body: list[ast.stmt], env: dict[str, Any], m: Module) -> None:
        for st in body:
            self._exec(st, env, m)

    def _assign(self, t: ast.expr, v: Any, env: dict[str, Any], m: Module) -> None:
        if isinstance(t, ast.Name):
            env[t.id] = v
        elif isinstance(t, (ast.Tuple, ast.List)):
            if v is TOP:
                for e in t.elts:
                    self._assign(e, TOP, env, m)
                return
            vals = list(v)
            if any(isinstance(e, ast.Starred) for e in t.elts):
                raise AnalysisError("starred assignment")
            if len(vals) != len(t.elts):
                raise AnalysisError("unpack mismatch")
            for e, x in zip(t.elts, vals):
                self._assign(e, x, env, m)
        elif isinstance(t, ast.Subscript):
            cont = self._eval(t.value, env, m)
            key = self._eval(t.slice, env, m)
            if cont is TOP or key is TOP or not isinstance(cont, (dict, list)):
                raise AnalysisError("store into an unfoldable container")
            cont[key] = v
        elif isinstance(t, ast.Attribute):
            pass  # attribute stores at module level are not constants
        else:
            raise AnalysisError(f"unsupported assignment target {type(t).__name__}")

    def _class(self, st: ast.ClassDef, env: dict[str, Any], m: Module) -> Any:
        bases = [ast.unparse(b) for b in st.bases]
        kind = next((b for b in ("StrEnum", "IntEnum", "Enum", "IntFlag") if any(x.endswith(b) for x in bases)), None)
        cenv = dict(env)
        attrs: dict[str, Any] = {}
        for s in st.body:
            if isinstance(s, (ast.Assign, ast.AnnAssign)) and s.value is not None:
                tgts = s.targets if isinstance(s, ast.Assign) else [s.target]
                try:
                    v = self._eval(s.value, cenv, m)
                except AnalysisError:
                    v = TOP
                for t in tgts:
                    if isinstance(t, ast.Name):
                        attrs[t.id] = v
                        cenv[t.id] = v
        if kind:
            return EnumClass(st.name, kind, {k: v for k, v in attrs.items() if not k.startswith("__")})
        return ClassConst(st.name, attrs)

    # -- expressions ------------------------------------------------------------------

    def _eval(self, e: ast.expr, env: dict[str, Any], m: Module) -> Any:
        try:
            return self._ev(e, env, m)
        except (_Break, _Continue):
            raise
        except AnalysisError:
            raise
        except RecursionError:
            raise
        except Exception as err:  # a folding failure, not a verdict
            raise AnalysisError(f"cannot fold {ast.unparse(e)[:80]}: {type(err).__name__}: {err}") from err

    def _ev(self, e: ast.expr, env: dict[str, Any], m: Module) -> Any:
        if isinstance(e, ast.Constant):
            return e.value
        if isinstance(e, ast.Name):
            if e.id in env:
                v = env[e.id]
                if isinstance(v, _Lazy):
                    v = env[e.id] = v.force()
                return v
            if e.id in _BUILTINS:
                return _BUILTINS[e.id]
            if e.id in ("True", "False", "None"):
                return {"True": True, "False": False, "None": None}[e.id]
            return TOP
        if isinstance(e, ast.Attribute):
            base = self._ev(e.value, env, m)
            return self._getattr(base, e.attr)
        if isinstance(e, ast.JoinedStr):
            parts = []
            for v in e.values:
                if isinstance(v, ast.Constant):
                    parts.append(str(v.value))
                else:
                    assert isinstance(v, ast.FormattedValue)
                    x = self._ev(v.value, env, m)
                    if x is TOP:
                        return TOP
                    if isinstance(x, RegexConst):
                        return TOP
                    spec = ""
                    if v.format_spec is not None:
                        spec = self._ev(v.format_spec, env, m)
                        if spec is TOP:
                            return TOP
                    if v.conversion == ord("r"):
                        x = repr(x)
                    elif v.conversion == ord("s"):
                        x = str(x)
                    parts.append(format(x, spec))
            return "".join(parts)
        if isinstance(e, ast.BinOp):
            return self._binop(e.op, self._ev(e.left, env, m), self._ev(e.right, env, m))
        if isinstance(e, ast.UnaryOp):
            v = self._ev(e.operand, env, m)
            if v is TOP:
                return TOP
            if isinstance(e.op, ast.Not):
                return not v
            if isinstance(e.op, ast.USub):
                return -v
            if isinstance(e.op, ast.UAdd):
                return +v
            return ~v
        if isinstance(e, ast.BoolOp):
            last: Any = None
            for v in e.values:
                last = self._ev(v, env, m)
                if last is TOP:
                    return TOP
                if isinstance(e.op, ast.And) and not last:
                    return last
                if isinstance(e.op, ast.Or) and last:
                    return last
            return last
        if isinstance(e, ast.Compare):
            left = self._ev(e.left, env, m)
            for op, c in zip(e.ops, e.comparators):
                right = self._ev(c, env, m)
                if left is TOP or right is TOP:
                    return TOP
                if not _cmp(op, left, right):
                    return False
                left = right
            return True
        if isinstance(e, ast.IfExp):
            t = self._ev(e.test, env, m)
            if t is TOP:
                return TOP
            return self._ev(e.body if t else e.orelse, env, m)
        if isinstance(e, ast.Subscript):
            base = self._ev(e.value, env, m)
            if base is TOP:
                return TOP
            if isinstance(e.slice, ast.Slice):
                lo = self._ev(e.slice.lower, env, m) if e.slice.lower else None
                hi = self._ev(e.slice.upper, env, m) if e.slice.upper else None
                stp = self._ev(e.slice.step, env, m) if e.slice.step else None
                if TOP in (lo, hi, stp):
                    return TOP
                return base[lo:hi:stp]
            k = self._ev(e.slice, env, m)
            if k is TOP:
                return TOP
            if isinstance(base, AttrDictConst):
                return base.getitem(k)
            if isinstance(base, EnumClass):
                return base.members.get(k, TOP)
            if isinstance(base, _SAFE_TYPES):
                return base[k]
            return TOP
        if isinstance(e, ast.Tuple):
            return tuple(self._seq(e.elts, env, m))
        if isinstance(e, ast.List):
            return list(self._seq(e.elts, env, m))
        if isinstance(e, ast.Set):
            return set(self._seq(e.elts, env, m))
        if isinstance(e, ast.Dict):
            d: dict[Any, Any] = {}
            for k, v in zip(e.keys, e.values):
                if k is None:
                    sub = self._ev(v, env, m)
                    if sub is TOP:
                        raise AnalysisError("** of an unfoldable value")
                    d.update(sub)
                else:
                    kk = self._ev(k, env, m)
                    if kk is TOP:
                        raise AnalysisError("unfoldable dict key")
                    d[kk] = self._ev(v, env, m)
            return d
        if isinstance(e, (ast.ListComp, ast.SetComp, ast.GeneratorExp, ast.DictComp)):
            return self._comp(e, env, m)
        if isinstance(e, ast.Call):
            return self._call(e, env, m)
        if isinstance(e, ast.Starred):
            return self._ev(e.value, env, m)
        if isinstance(e, ast.NamedExpr):
            v = self._ev(e.value, env, m)
            env[e.target.id] = v
            return v
        return TOP

    def _seq(self, elts: list[ast.expr], env: dict[str, Any], m: Module) -> list[Any]:
        out: list[Any] = []
        for x in elts:
            if isinstance(x, ast.Starred):
                v = self._ev(x.value, env, m)
                if v is TOP:
                    raise AnalysisError("* of an unfoldable value")
                out.extend(v)
            else:
                out.append(self._ev(x, env, m))
        return out

    def _comp(self, e: ast.expr, env: dict[str, Any], m: Module) -> Any:
        results: list[Any] = []
        gens = e.generators  # type: ignore[attr-defined]

        def rec(i: int, scope: dict[str, Any]) -> None:
            if i == len(gens):
                if isinstance(e, ast.DictComp):
                    results.append((self._ev(e.key, scope, m), self._ev(e.value, scope, m)))
                else:
                    results.append(self._ev(e.elt, scope, m))  # type: ignore[attr-defined]
                return
            g = gens[i]
            it = self._ev(g.iter, scope, m)
            if it is TOP:
                raise AnalysisError("comprehension over an unfoldable value")
            if isinstance(it, dict):
                it = list(it)
            for item in list(it):
                sc = dict(scope)
                self._assign(g.target, item, sc, m)
                ok = True
                for c in g.ifs:
                    t = self._ev(c, sc, m)
                    if t is TOP:
                        raise AnalysisError("comprehension filter unfoldable")
                    if not t:
                        ok = False
                        break
                if ok:
                    rec(i + 1, sc)

        rec(0, dict(env))
        if isinstance(e, ast.DictComp):
            return dict(results)
        if isinstance(e, ast.SetComp):
            return set(results)
        if isinstance(e, ast.GeneratorExp):
            return tuple(results)
        return results

    def _getattr(self, base: Any, attr: str) -> Any:
        if base is TOP:
            return TOP
        if isinstance(base, _Lazy):
            base = base.force()
        if isinstance(base, Namespace):
            modname = base.attrs.get("__module__")
            if modname and modname in self.repo.modules:
                return self.get(modname, attr)
            if attr in base.attrs:
                return base.attrs[attr]
            if modname:
                return Namespace({"__module__": f"{modname}.{attr}"})
            return TOP
        if isinstance(base, EnumClass):
            return base.members.get(attr, TOP)
        if isinstance(base, ClassConst):
            return base.attrs.get(attr, TOP)
        if isinstance(base, AttrDictConst):
            self.check_attrdict()
            if attr in ("_hex",):
                return base._hex
            if attr in ("items", "keys", "values", "get"):
                return getattr(dict(base), attr)
            return base.getattr(attr)
        if isinstance(base, RegexConst):
            if attr == "pattern":
                return base.pattern
            return TOP
        if isinstance(base, _SAFE_TYPES):
            if attr in ("value", "name") and isinstance(base, (str, int)):
                return base if attr == "value" else TOP  # StrEnum member .value
            if attr.startswith("__"):
                return TOP
            return getattr(base, attr, TOP)
        return TOP

    def _call(self, e: ast.Call, env: dict[str, Any], m: Module) -> Any:
        fn_txt = ast.unparse(e.func)
        if fn_txt in ("locals", "globals", "vars"):
            return TOP
        if fn_txt in ("re.compile",):
            pat = self._ev(e.args[0], env, m)
            if pat is TOP or not isinstance(pat, str):
                return TOP
            return RegexConst(pat)
        fn = self._ev(e.func, env, m)
        args = self._seq(e.args, env, m)
        kwargs = {}
        for k in e.keywords:
            if k.arg is None:
                sub = self._ev(k.value, env, m)
                if sub is TOP:
                    return TOP
                kwargs.update(sub)
            else:
                kwargs[k.arg] = self._ev(k.value, env, m)
        if isinstance(fn, FuncRef):
            if fn.name == "attr_dict_factory":
                self.check_attrdict()
                main = args[0] if args else kwargs.get("main_table")
                attr = args[1] if len(args) > 1 else kwargs.get("attr_table") or {}
                if main is TOP or attr is TOP:
                    return TOP
                return AttrDictConst(main, attr)
            return TOP
        if isinstance(fn, Namespace):
            modname = fn.attrs.get("__module__", "")
            if modname in ("datetime.timedelta",) or modname.endswith(".timedelta"):
                if TOP in args or TOP in kwargs.values():
                    return TOP
                return _dt.timedelta(*args, **kwargs)
            if modname.endswith("SimpleNamespace"):
                return Namespace(kwargs)
            if modname == "re.compile" and args and isinstance(args[0], str):
                return RegexConst(args[0])
            return TOP
        if fn is TOP or fn is None:
            return TOP
        if any(a is TOP for a in args) or any(v is TOP for v in kwargs.values()):
            # pure container constructors tolerate TOP elements only inside containers
            return TOP
        if fn in _BUILTINS.values() or (hasattr(fn, "__self__") and isinstance(fn.__self__, _SAFE_TYPES)):
            if fn in (sorted, min, max) and "key" in kwargs:
                return TOP
            r = fn(*args, **kwargs)
            if isinstance(r, (range, enumerate, zip, reversed)) or type(r).__name__ in ("dict_items", "dict_keys", "dict_values"):
                return list(r)
            return r
        return TOP

    def _binop(self, op: ast.operator, a: Any, b: Any) -> Any:
        if a is TOP or b is TOP:
            return TOP
        if isinstance(a, RegexConst) or isinstance(b, RegexConst):
            return TOP
        import operator as o

        table = {
            ast.Add: o.add, ast.Sub: o.sub, ast.Mult: o.mul, ast.Div: o.truediv, ast.FloorDiv: o.floordiv,
            ast.Mod: o.mod, ast.Pow: o.pow, ast.BitOr: o.or_, ast.BitAnd: o.and_, ast.BitXor: o.xor,
            ast.LShift: o.lshift, ast.RShift: o.rshift,
        }
        f = table.get(type(op))
        if f is None:
            return TOP
        if isinstance(op, ast.Pow) and isinstance(b, (int, float)) and abs(b) > 64:
            return TOP
        return f(a, b)


class _Lazy:
    def __init__(self, env: ConstEnv, module: str, name: str) -> None:
        self.env, self.module, self.name = env, module, name

    def force(self) -> Any:
        return self.env.get(self.module, self.name)


class _Break(Exception):
    pass


class _Continue(Exception):
    pass


def _load(t: ast.expr) -> ast.expr:
    t2 = ast.parse(ast.unparse(t), mode="eval").body
    return t2


def _cmp(op: ast.cmpop, a: Any, b: Any) -> bool:
    if isinstance(op, ast.Eq):
        return a == b
    if isinstance(op, ast.NotEq):
        return a != b
    if isinstance(op, ast.Lt):
        return a < b
    if isinstance(op, ast.LtE):
        return a <= b
    if isinstance(op, ast.Gt):
        return a > b
    if isinstance(op, ast.GtE):
        return a >= b
    if isinstance(op, ast.In):
        return a in b
    if isinstance(op, ast.NotIn):
        return a not in b
    if isinstance(op, ast.Is):
        return a is b
    if isinstance(op, ast.IsNot):
        return a is not b
    raise AnalysisError("unsupported comparison")
