"""Flow facts about the QoS FSM's header reads (shared by C06/C07/C09).

Frame._hdr/_ctx/_idx are memoised properties ("if self._x_ is not None: return self._x_"): once an evaluation has succeeded
the later ones return the memo. Two premises, each re-established structurally on every run:

 P1 (commands): every queue entry is created in ProtocolContext.send_cmd, and there cmd.tx_header and cmd.rx_header are read inside
    a try that converts PacketInvalid, before put_nowait. Hence header reads on Command-typed values inside the FSM cannot raise.
 P2 (packets): ProtocolContext.pkt_received fences PacketInvalid around state.pkt_rcvd(pkt); Frame._hdr assigns its memo before
    calling pkt_header (so a second read never raises); every set_state(..., result=X) passes the pkt parameter of a pkt_rcvd
    (whose _hdr was read on the way) or _echo_pkt, whose only writers store such a pkt.
"""

from __future__ import annotations

import ast
from typing import Any

from .context import Ctx
from .loader import AnalysisError, FuncInfo, norm, own_nodes

MOD = "ramses_tx.protocol_fsm"
HDR_PROPS = {"_hdr", "tx_header", "rx_header", "_ctx", "_idx"}


class FsmFacts:
    def __init__(self, ctx: Ctx) -> None:
        self.ctx = ctx
        self.notes: list[str] = []
        self.p_memo = self._memo_shapes()
        self.p1 = self._p1()
        self.p2 = self._p2()

    # -- memo shapes ----------------------------------------------------------------------

    def _memo_shapes(self) -> bool:
        repo = self.ctx.repo
        ok = True
        for prop, memo in (("_hdr", "_hdr_"), ("_ctx", "_ctx_"), ("_idx", "_idx_")):
            f = repo.func(f"ramses_tx.frame.Frame.{prop}")
            body = [s for s in f.node.body if not (isinstance(s, ast.Expr) and isinstance(s.value, ast.Constant))]
            first = body[0] if body else None
            # (A) `if self.M is not None: return self.M` first; or (B) everything but the final `return self.M` sits under
            # `if self.M is None:` - either way a non-None memo is returned without any computation
            shape_a = isinstance(first, ast.If) and norm(first.test) == f"self.{memo} is not None" and isinstance(first.body[0], ast.Return) and norm(first.body[0].value) == f"self.{memo}"
            shape_b = bool(body) and all((isinstance(st, ast.If) and norm(st.test) == f"self.{memo} is None" and not st.orelse) or (isinstance(st, ast.Return) and st.value is not None and norm(st.value) == f"self.{memo}") for st in body) and isinstance(body[-1], ast.Return)
            shape = shape_a or shape_b
            if not shape:
                ok = False
                self.notes.append(f"Frame.{prop} no longer starts with the memo early-return")
        # _hdr: the memo is assigned before pkt_header() is called (raise-once)
        f = repo.func("ramses_tx.frame.Frame._hdr")
        seen_assign = False
        once = False
        for s in sorted((x for x in own_nodes(f.node) if isinstance(x, ast.Assign)), key=lambda x: x.lineno):
            if isinstance(s, ast.Assign) and norm(s.targets[0]) == "self._hdr_":
                if "pkt_header" in norm(s.value):
                    once = seen_assign
                    break
                seen_assign = True
        self.hdr_raise_once = once
        if not once:
            self.notes.append("Frame._hdr no longer assigns its memo before calling pkt_header(): a failed first read would raise again")
        # the memo is reset only by _force_has_array (gateway layer, on Packets)
        resets = []
        for g in repo.funcs.values():
            for n in own_nodes(g.node):
                if isinstance(n, ast.Assign) and any(isinstance(t, ast.Attribute) and t.attr in ("_hdr_", "_ctx_", "_idx_") for t in n.targets):
                    if isinstance(n.value, ast.Constant) and n.value.value is None and g.name not in ("__init__", "_force_has_array"):
                        resets.append(g.qualname)
        inside = [r for r in resets if r.startswith("ramses_tx.")]
        if inside:
            ok = False
            self.notes.append(f"header memos are reset inside the transport layer: {inside}")
        elif resets:
            self.notes.append(f"informational: header memos are reset by {resets} - on a packet already handed back to the caller, outside the FSM")
        return ok

    # -- P1 ---------------------------------------------------------------------------------

    def _p1(self) -> bool:
        from .props.common import expand as _expand_q

        repo, ctx = self.ctx.repo, self.ctx
        sc = repo.func(f"{MOD}.ProtocolContext.send_cmd")
        # single producer of queue entries
        puts = []
        for g in repo.funcs.values():
            if g.module.name != MOD:
                continue
            for n in own_nodes(g.node):
                if isinstance(n, ast.Call) and isinstance(n.func, ast.Attribute) and n.func.attr in ("put_nowait", "put") and ("_que" in norm(n.func.value) or "_que" in norm(_expand_q(g.node, n.func.value, pure_only=False))):
                    puts.append((g, n))
        if not puts:
            raise AnalysisError("no put_nowait() on the FSM queue found")
        producers = {g.qualname: g for g, _ in puts}
        if len(producers) != 1:
            self.notes.append(f"the FSM queue has more than one producer: {sorted(producers)}")
            return False
        prod = next(iter(producers.values()))
        if prod is not sc:
            # a private method of the context that only send_cmd calls is part of send_cmd
            callers = {cs.caller.qualname for cs in ctx.cg.callers_of(prod)}
            if prod.cls is not sc.cls or callers != {sc.qualname}:
                self.notes.append(f"the FSM queue's producer {prod.short} is not ProtocolContext.send_cmd (nor a private method only it calls)")
                return False
        cfg = ctx.plain_cfg(prod)
        put_nodes = [x for x in cfg.nodes if x.kind == "stmt" and x.ast is not None and any(n is c for _, n in puts for c in ast.walk(x.ast))]
        # the command that goes into the entry: a parameter of the producer appearing in the (copy-propagated) entry
        from .props.common import expand

        params = {a0.arg for a0 in prod.node.args.args + prod.node.args.kwonlyargs}
        in_entry: set[str] = set()
        for _g, n in puts:
            if n.args:
                for x in ast.walk(expand(prod.node, n.args[0], pure_only=False)):
                    if isinstance(x, ast.Name) and x.id in params:
                        in_entry.add(x.id)
        # a fenced read of both headers dominating every put
        fenced = []
        for t in own_nodes(prod.node):
            if isinstance(t, ast.Try):
                attrs = {(norm(x.value), x.attr) for bnode in t.body for x in ast.walk(bnode) if isinstance(x, ast.Attribute) and x.attr in ("tx_header", "rx_header")}
                if any((nm, "tx_header") in attrs and (nm, "rx_header") in attrs for nm in in_entry):
                    for h in t.handlers:
                        hc = ctx.handler_classes(prod, h)
                        if any(ctx.is_sub("ramses_tx.exceptions.PacketInvalid", c) for c in hc) and any(isinstance(s_, ast.Raise) for s_ in ast.walk(ast.Module(body=h.body, type_ignores=[]))):
                            fenced.append(t)
        if not fenced and prod is not sc:
            # the fence may have stayed in send_cmd, in front of the call of the private producer: the argument that becomes the
            # producer's entry parameter must have been read under the fence before the call
            pparams = [a0.arg for a0 in prod.node.args.args]
            if pparams and pparams[0] in ("self", "cls"):
                pparams = pparams[1:]
            cfg_sc = ctx.plain_cfg(sc)
            calls_p = [c for c in own_nodes(sc.node) if isinstance(c, ast.Call) and isinstance(c.func, ast.Attribute) and c.func.attr == prod.name and norm(c.func.value) == "self"]
            ok_all = bool(calls_p)
            for c in calls_p:
                amap = {pn: norm(a0) for pn, a0 in zip(pparams, c.args)}
                amap.update({k.arg: norm(k.value) for k in c.keywords if k.arg})
                passed = {amap[nm] for nm in in_entry if nm in amap}
                fenced_sc = []
                for t in own_nodes(sc.node):
                    if isinstance(t, ast.Try):
                        attrs = {(norm(x.value), x.attr) for bnode in t.body for x in ast.walk(bnode) if isinstance(x, ast.Attribute) and x.attr in ("tx_header", "rx_header")}
                        if any((nm, "tx_header") in attrs and (nm, "rx_header") in attrs for nm in passed):
                            for h in t.handlers:
                                hc = ctx.handler_classes(sc, h)
                                if any(ctx.is_sub("ramses_tx.exceptions.PacketInvalid", c0) for c0 in hc) and any(isinstance(s_, ast.Raise) for s_ in ast.walk(ast.Module(body=h.body, type_ignores=[]))):
                                    fenced_sc.append(t)
                reads_sc = [x for x in cfg_sc.nodes if x.kind == "stmt" and x.ast is not None and any(x.ast is b0 for t in fenced_sc for b0 in t.body)]
                call_nodes = [x for x in cfg_sc.nodes if x.kind == "stmt" and x.ast is not None and any(c is y for y in ast.walk(x.ast))]
                if not (reads_sc and call_nodes and all(any(r.id in cfg_sc.dominators().get(cn.id, set()) for r in reads_sc) for cn in call_nodes)):
                    ok_all = False
            if ok_all:
                return True
        if not fenced:
            self.notes.append(f"{prod.short} does not read the command's tx_header/rx_header under a PacketInvalid fence before queueing")
            return False
        reads = [x for x in cfg.nodes if x.kind == "stmt" and x.ast is not None and any(x.ast is b0 for t in fenced for b0 in t.body)]
        for p0 in put_nodes:
            dom = cfg.dominators().get(p0.id, set())
            if not any(r.id in dom for r in reads):
                self.notes.append(f"a put_nowait() in {prod.short} is not dominated by the fenced header read")
                return False
        return True

    # -- P2 ---------------------------------------------------------------------------------

    def _p2(self) -> bool:
        repo, ctx = self.ctx.repo, self.ctx
        ok = True
        pr = repo.func(f"{MOD}.ProtocolContext.pkt_received")
        fenced = False
        for t in own_nodes(pr.node):
            if isinstance(t, ast.Try) and any("pkt_rcvd" in norm(b) for b in t.body):
                for h in t.handlers:
                    if any(ctx.is_sub("ramses_tx.exceptions.PacketInvalid", c) for c in ctx.handler_classes(pr, h)):
                        fenced = True
        if not fenced:
            self.notes.append("ProtocolContext.pkt_received no longer fences PacketInvalid around state.pkt_rcvd()")
            ok = False
        # result provenance
        for g in repo.funcs.values():
            if g.module.name != MOD:
                continue
            for n in own_nodes(g.node):
                if isinstance(n, ast.Call) and isinstance(n.func, ast.Attribute) and n.func.attr == "set_state":
                    for k in n.keywords:
                        if k.arg == "result":
                            v = norm(k.value)
                            if g.name == "pkt_rcvd" and v == "pkt":
                                cfg = ctx.plain_cfg(g)
                                node = None
                                p: Any = n
                                while p is not None and not cfg.nodes_of(p):
                                    p = getattr(p, "parent", None)
                                node = cfg.nodes_of(p)[0] if p is not None else None
                                doms = cfg.dominated_by(node, lambda x: x.ast is not None and x.kind in ("test", "stmt") and "pkt._hdr" in norm(x.ast)) if node is not None else []
                                if not doms and node is not None:
                                    doms = self._hdr_read_in_predicate(g, cfg, node)
                                if not doms:
                                    self.notes.append(f"{g.short}: set_state(result=pkt) is not dominated by a read of pkt._hdr")
                                    ok = False
                            elif v.endswith("._echo_pkt"):
                                pass  # writers checked below
                            else:
                                self.notes.append(f"{g.short}: set_state(result={v}) is neither a received pkt nor _echo_pkt")
                                ok = False
                if isinstance(n, ast.Assign) and any(isinstance(t, ast.Attribute) and t.attr in ("_echo_pkt", "_rply_pkt") for t in n.targets):
                    v = norm(n.value)
                    if v in ("pkt", "None") or v.endswith("._echo_pkt"):
                        continue
                    self.notes.append(f"{g.short}: {norm(n)} stores something other than a received pkt")
                    ok = False
        return ok

    def _hdr_read_in_predicate(self, g: FuncInfo, cfg: Any, node: Any) -> list:
        """The packet's header was read inside a predicate method of the same class whose *true* outcome dominates `node`:
        `if self._is_x(.., pkt): ... set_state(result=pkt)` where every truthy return of _is_x lies behind a read of <param>._hdr."""
        ctx = self.ctx
        out = []
        if g.cls is None:
            return out
        for t in cfg.nodes:
            if t.kind != "test" or t.ast is None or not cfg.edge_dominates(t, "true", node):
                continue
            tt = t.ast
            if not (isinstance(tt, ast.Call) and isinstance(tt.func, ast.Attribute) and norm(tt.func.value) == "self"):
                continue
            h = next((k.methods[tt.func.attr] for k in g.cls.mro if tt.func.attr in k.methods), None)
            if h is None or h.is_async:
                continue
            params = [a.arg for a in h.node.args.args]
            if params and params[0] in ("self", "cls"):
                params = params[1:]
            q = next((pn for pn, a in zip(params, tt.args) if norm(a) == "pkt"), None)
            if q is None:
                continue
            hcfg = ctx.plain_cfg(h)
            rets = [x for x in hcfg.nodes if x.kind == "stmt" and isinstance(x.ast, ast.Return) and not (x.ast.value is None or (isinstance(x.ast.value, ast.Constant) and not x.ast.value.value))]
            def read_before(r: Any) -> bool:
                for y in hcfg.nodes:
                    if y.ast is None or f"{q}._hdr" not in norm(y.ast):
                        continue
                    if y.kind == "stmt" and y.id in hcfg.dominators().get(r.id, set()) and y.id != r.id:
                        return True
                    if y.kind == "test":
                        full = "false" if isinstance(y.ast, ast.BoolOp) and isinstance(y.ast.op, ast.Or) else "true" if isinstance(y.ast, ast.BoolOp) else None
                        if full is None and y.id in hcfg.dominators().get(r.id, set()):
                            return True
                        if full is not None and hcfg.edge_dominates(y, full, r):
                            return True
                return False
            if rets and all(read_before(r) for r in rets):
                out.append(t)
        return out

    # -- the hook -----------------------------------------------------------------------------

    def safe_site(self, f: FuncInfo, site: Any) -> str | None:
        node = site.node
        if not isinstance(node, ast.Attribute) or node.attr not in HDR_PROPS:
            return None
        if f.module.name not in (MOD, "ramses_tx.protocol"):
            return None
        at = self.ctx.cg.atoms(f, node.value) or ()
        classes = {a[2:] for a in at if a[:2] == "I:"}
        if not classes:
            return None
        if classes <= {"ramses_tx.command.Command"}:
            if self.p1 and self.p_memo:
                return "P1: the command's headers were read under a fence in send_cmd before it was queued (memoised)"
            return None
        if classes <= {"ramses_tx.packet.Packet"} and node.attr == "_hdr" and f.module.name == MOD:
            # first reads happen in pkt_rcvd (fenced by ProtocolContext.pkt_received); everywhere else it is a re-read
            if f.name == "pkt_rcvd":
                return None
            if self.p2 and self.hdr_raise_once and self.p_memo:
                return "P2: a packet held by the FSM had _hdr read in pkt_rcvd under the fence; Frame._hdr is raise-once"
        return None
