"""Discharges for exception sources that are infeasible *because of the repository's own tables*.

Each discharge is itself a small static rule (constant folding + a syntactic shape), is
applied only where its premise is re-established on the current tree, and is listed in
the evidence. None of them is keyed on source text or positions.
"""

from __future__ import annotations

import ast
import re
from typing import Any

from .consteval import TOP, ConstEnv, RegexConst
from .loader import FuncInfo, own_nodes


def _single_def(f: FuncInfo, name: str) -> ast.expr | None:
    """The only assignment to a local name in f (None if 0 or >1, or a parameter)."""
    vals = []
    for n in ast.walk(f.node):
        if isinstance(n, (ast.Assign, ast.AnnAssign)) and n.value is not None:
            tgts = n.targets if isinstance(n, ast.Assign) else [n.target]
            for t in tgts:
                for nm in ast.walk(t):
                    if isinstance(nm, ast.Name) and nm.id == name:
                        vals.append(n.value if isinstance(t, ast.Name) else None)
        elif isinstance(n, (ast.AugAssign, ast.For, ast.NamedExpr, ast.comprehension)):
            for nm in ast.walk(n.target):
                if isinstance(nm, ast.Name) and nm.id == name:
                    vals.append(None)
    if len(vals) == 1:
        return vals[0]
    return None


class Oracles:
    def __init__(self, ctx: Any) -> None:
        self.ctx = ctx
        self.consts: ConstEnv = ctx.consts
        self.used: dict[str, str] = {}

    # -- a divisor that is a table constant proven non-zero --------------------------------

    def nonzero(self, f: FuncInfo, e: ast.expr, depth: int = 0) -> bool:
        if depth > 3:
            return False
        if isinstance(e, ast.IfExp):
            return self.nonzero(f, e.body, depth + 1) and self.nonzero(f, e.orelse, depth + 1)
        if isinstance(e, ast.Constant):
            return isinstance(e.value, (int, float)) and e.value != 0
        if isinstance(e, ast.Name):
            d = _single_def(f, e.id)
            if d is not None:
                return self.nonzero(f, d, depth + 1)
            try:
                v = self.consts.eval_in(f, e)
            except Exception:
                return False
            return isinstance(v, (int, float)) and not isinstance(v, bool) and v != 0
        if isinstance(e, ast.Subscript):
            vals = self._possible_values(f, e)
            if vals is not None and vals and all(isinstance(v, (int, float)) and v != 0 for v in vals):
                self.used[f"nonzero:{f.qualname}:{ast.unparse(e)}"] = f"all {len(vals)} table values non-zero"
                return True
            return False
        try:
            v = self.consts.eval_in(f, e)
        except Exception:
            return False
        return v is not TOP and isinstance(v, (int, float)) and not isinstance(v, bool) and v != 0

    def _possible_values(self, f: FuncInfo, e: ast.expr) -> list[Any] | None:
        """All values `TABLE[k1][k2]...` can take when the keys are unknown (None = not a folded table)."""
        if isinstance(e, ast.Subscript):
            base = self._possible_values(f, e.value)
            if base is None:
                return None
            key: Any = TOP
            if not isinstance(e.slice, ast.Slice):
                try:
                    key = self.consts.eval_in(f, e.slice)
                except Exception:
                    key = TOP
            out = []
            for b in base:
                if isinstance(b, dict):
                    if key is not TOP:
                        if key not in b:
                            continue
                        out.append(b[key])
                    else:
                        out.extend(b.values())
                elif isinstance(b, (list, tuple)):
                    if key is not TOP and isinstance(key, int):
                        if -len(b) <= key < len(b):
                            out.append(b[key])
                    else:
                        out.extend(b)
                else:
                    return None
            return out
        try:
            v = self.consts.eval_in(f, e)
        except Exception:
            return None
        if v is TOP or not isinstance(v, (dict, list, tuple)):
            return None
        return [v]

    # -- `if X.code in TABLE: raise` where every member of TABLE returned earlier ------------

    def dead_table_raise(self, f: FuncInfo, node: ast.AST, cls: str) -> str | None:
        if not isinstance(node, ast.Raise):
            return None
        par = getattr(node, "parent", None)
        if not (isinstance(par, ast.If) and par.body and par.body[0] is node):
            return None
        t = par.test
        if not (isinstance(t, ast.Compare) and len(t.ops) == 1 and isinstance(t.ops[0], ast.In)):
            return None
        subject = ast.unparse(t.left)
        try:
            table = self.consts.eval_in(f, t.comparators[0])
        except Exception:
            return None
        if table is TOP or not isinstance(table, (set, frozenset, list, tuple)):
            return None
        body = getattr(par, "parent", None)
        if not isinstance(body, (ast.FunctionDef, ast.AsyncFunctionDef)) or par not in body.body:
            return None
        handled: set[Any] = set()
        for st in body.body[: body.body.index(par)]:
            if not isinstance(st, ast.If) or st.orelse:
                continue
            vals = self._eq_values(f, st.test, subject)
            if vals is None:
                continue
            if _always_leaves(st.body):
                handled |= vals
        missing = set(table) - handled
        if missing:
            return None
        why = f"all {len(table)} members of {ast.unparse(t.comparators[0])} return in earlier branches"
        self.used[f"dead-raise:{f.qualname}:{cls}"] = why
        return why

    def _eq_values(self, f: FuncInfo, test: ast.expr, subject: str) -> set[Any] | None:
        """`subject == K` / `subject in (K1, K2)` possibly and-ed with more conditions -> None (not exhaustive)."""
        if isinstance(test, ast.Compare) and len(test.ops) == 1 and ast.unparse(test.left) == subject:
            try:
                v = self.consts.eval_in(f, test.comparators[0])
            except Exception:
                return None
            if v is TOP:
                return None
            if isinstance(test.ops[0], ast.Eq):
                return {v}
            if isinstance(test.ops[0], ast.In) and isinstance(v, (tuple, list, set, frozenset)):
                return set(v)
        return None

    # -- re.compile(param) where every caller passes a regex from a folded table ----------------

    def table_regex(self, f: FuncInfo, node: ast.AST, cls: str) -> str | None:
        if not (isinstance(node, ast.Call) and cls == "re.error"):
            return None
        if not node.args or not isinstance(node.args[0], ast.Name):
            return None
        pname = node.args[0].id
        params = [a.arg for a in f.node.args.posonlyargs + f.node.args.args]
        if pname not in params:
            return None
        idx = params.index(pname)
        sites = self.ctx.cg.callers_of(f)
        if not sites:
            return None
        n = 0
        for s in sites:
            if not isinstance(s.node, ast.Call) or len(s.node.args) <= idx:
                return None
            arg = s.node.args[idx]
            if isinstance(arg, ast.Name):
                d = _single_def(s.caller, arg.id)
                if d is None:
                    return None
                arg = d
            vals = self._possible_values(s.caller, arg)
            if vals is None:
                return None
            for v in vals:
                pat = v.pattern if isinstance(v, RegexConst) else v
                if not isinstance(pat, str):
                    continue  # non-str table cells (lifespans...) would be a TypeError: outside the model
                try:
                    re._parser.parse(pat)  # type: ignore[attr-defined]  # stdlib parser on an extracted constant
                except re.error:
                    return None
                n += 1
        why = f"every caller passes a pattern from a folded table; all {n} patterns parse"
        self.used[f"table-regex:{f.qualname}"] = why
        return why

    # -- TABLE2[k] under `if k in TABLE1` where fold(TABLE1) ⊆ keys(fold(TABLE2)) ---------------

    def subset_guard(self, f: FuncInfo, node: ast.AST, cls: str) -> str | None:
        if not (isinstance(node, ast.Subscript) and cls.endswith("KeyError")):
            return None
        key = ast.unparse(node.slice)
        try:
            cont = self.consts.eval_in(f, node.value)
        except Exception:
            return None
        if cont is TOP or not isinstance(cont, dict):
            return None
        p = getattr(node, "parent", None)
        child: ast.AST = node
        while p is not None and not isinstance(p, (ast.FunctionDef, ast.AsyncFunctionDef)):
            if isinstance(p, ast.If) and child in p.body:
                for t in ast.walk(p.test) if isinstance(p.test, ast.BoolOp) and isinstance(p.test.op, ast.And) else [p.test]:
                    if isinstance(t, ast.Compare) and len(t.ops) == 1 and isinstance(t.ops[0], ast.In) and ast.unparse(t.left) == key:
                        try:
                            tab = self.consts.eval_in(f, t.comparators[0])
                        except Exception:
                            continue
                        if tab is not TOP and isinstance(tab, (set, frozenset, list, tuple, dict)) and set(tab) <= set(cont):
                            why = f"guarded by `{ast.unparse(t)}` and all {len(set(tab))} members are keys of {ast.unparse(node.value)}"
                            self.used[f"subset-guard:{f.qualname}:{ast.unparse(node)}"] = why
                            return why
            child = p
            p = getattr(p, "parent", None)
        # a private helper with a single call site inherits the guards around that call (an `if code in T1:` branch whose body
        # was extracted into a function): the key expression is translated through the parameter -> argument binding
        if getattr(self, "_sg_depth", 0) < 2 and f.cls is None and f.parent is None and f.name.startswith("_"):
            cg = getattr(getattr(self, "ea", None), "cg", None)
            sites = [cs for cs in (cg.callers_of(f) if cg is not None else []) if isinstance(cs.node, ast.Call)]
            if len(sites) == 1:
                call = sites[0].node
                params = [a.arg for a in f.node.args.posonlyargs + f.node.args.args]
                if len(call.args) == len(params) and not call.keywords and all(isinstance(a, (ast.Name, ast.Attribute)) for a in call.args):
                    import re as _re

                    key2 = key
                    for prm, arg in zip(params, call.args):
                        key2 = _re.sub(rf"\b{_re.escape(prm)}\b", ast.unparse(arg), key2)
                    fake = ast.Subscript(value=node.value, slice=ast.parse(key2, mode="eval").body, ctx=ast.Load())
                    fake.parent = getattr(call, "parent", None)  # type: ignore[attr-defined]
                    # walk from the call's position: the fake node stands where the call is
                    st = call
                    while not isinstance(st, ast.stmt):
                        st = st.parent  # type: ignore[attr-defined]
                    fake.parent = st.parent  # type: ignore[attr-defined]
                    par = st.parent  # type: ignore[attr-defined]
                    for fld in ("body", "orelse", "finalbody"):
                        blk = getattr(par, fld, None)
                        if isinstance(blk, list) and st in blk:
                            blk_copy = blk
                            idx = blk_copy.index(st)
                            self._sg_depth = getattr(self, "_sg_depth", 0) + 1
                            try:
                                # temporarily let the fake node answer `child in p.body` through the statement it stands for
                                why = self._subset_guard_at(sites[0].caller, st, key2, cont)
                            finally:
                                self._sg_depth -= 1
                            if why:
                                why = f"{why} (at the only call of {f.name}())"
                                self.used[f"subset-guard:{f.qualname}:{ast.unparse(node)}"] = why
                                return why
                            _ = idx
        return None

    def _subset_guard_at(self, f: FuncInfo, stmt: ast.AST, key: str, cont: dict) -> str | None:
        """`key in T1` with T1 ⊆ keys(cont) known at a statement: an enclosing if-arm, or an earlier sibling that leaves otherwise."""
        child: ast.AST = stmt
        p = getattr(stmt, "parent", None)

        def members_ok(t: ast.expr) -> str | None:
            if isinstance(t, ast.Compare) and len(t.ops) == 1 and isinstance(t.ops[0], ast.In) and ast.unparse(t.left) == key:
                try:
                    tab = self.consts.eval_in(f, t.comparators[0])
                except Exception:
                    return None
                if tab is not TOP and isinstance(tab, (set, frozenset, list, tuple, dict)) and set(tab) <= set(cont):
                    return f"guarded by `{ast.unparse(t)}` and all {len(set(tab))} members are keys of the table"
            return None

        while p is not None and not isinstance(p, ast.Module):
            if isinstance(p, ast.If) and child in p.body:
                for t in ast.walk(p.test) if isinstance(p.test, ast.BoolOp) and isinstance(p.test.op, ast.And) else [p.test]:
                    w = members_ok(t)
                    if w:
                        return w
            if isinstance(p, (ast.FunctionDef, ast.AsyncFunctionDef)):
                break
            child = p
            p = getattr(p, "parent", None)
        return None

    # -- X.popleft()/X.pop() inside `if len(X) > k` (k >= 0) -------------------------------------

    def nonempty_pop(self, f: FuncInfo, node: ast.AST, cls: str) -> str | None:
        if not (isinstance(node, ast.Call) and isinstance(node.func, ast.Attribute) and node.func.attr in ("pop", "popleft") and not node.args):
            return None
        cont = ast.unparse(node.func.value)
        p = getattr(node, "parent", None)
        child: ast.AST = node
        while p is not None and not isinstance(p, (ast.FunctionDef, ast.AsyncFunctionDef)):
            if isinstance(p, ast.If) and any(child is b or child in ast.walk(b) for b in p.body):
                t = p.test
                if isinstance(t, ast.Compare) and len(t.ops) == 1 and isinstance(t.ops[0], (ast.Gt, ast.GtE)) and ast.unparse(t.left) == f"len({cont})":
                    try:
                        k = self.consts.eval_in(f, t.comparators[0])
                    except Exception:
                        k = TOP
                    if k is not TOP and isinstance(k, int) and (k >= 0 if isinstance(t.ops[0], ast.Gt) else k >= 1):
                        why = f"dominated by `{ast.unparse(t)}`: the container is non-empty"
                        self.used[f"nonempty-pop:{f.qualname}"] = why
                        return why
                if ast.unparse(t) == cont:
                    return "dominated by a truthiness test of the container"
            child = p
            p = getattr(p, "parent", None)
        return None

    # -- named exceptions: one symbol, one class, one reason (confirmed by reading) ------------------

    NAMED: dict[tuple[str, str, str], str] = {
        (
            "ramses_tx.transport.track_system_syncs.wrapper.is_pending",
            "ValueError",
            "int(<str>)",
        ): "p ranges over _global_sync_cycles, whose only writer appends pkt after `pkt._len != 3 -> return`; the payload is 6 hex digits by COMMAND_REGEX",
        (
            "ramses_tx.transport.avoid_system_syncs.wrapper.is_imminent",
            "ValueError",
            "int(<str>)",
        ): "p ranges over _global_sync_cycles (see is_pending): 6 hex digits",
        (
            "ramses_tx.transport.track_system_syncs.wrapper.is_pending",
            "OverflowError",
            "datetime +/- timedelta",
        ): "serial path only: p.dtm is the wall clock (PortTransport._dt_now) and the interval is <= 6553.5 s",
        (
            "ramses_tx.transport.avoid_system_syncs.wrapper.is_imminent",
            "OverflowError",
            "datetime +/- timedelta",
        ): "serial path only: p.dtm is the wall clock and the interval is <= 6553.5 s",
    }

    def phase_selfcheck(self, f: FuncInfo, node: ast.AST, cls: str) -> str | None:
        """`assert Message._from_cmd(cmd).payload["phase"] == BindPhase.X` right after `cmd = Command.put_bind(...)`:
        a self-check on the library's own command (its phase follows from the verb/dst passed in: C20.R5 + C03)."""
        if not (isinstance(node, ast.Assert) and cls.endswith("AssertionError")):
            return None
        t = node.test
        if not (isinstance(t, ast.Compare) and len(t.ops) == 1 and isinstance(t.ops[0], ast.Eq)):
            return None
        left = ast.unparse(t.left)
        if not (left.startswith("Message._from_cmd(") and left.endswith(".payload['phase']") and ast.unparse(t.comparators[0]).startswith("BindPhase.")):
            return None
        arg = t.left.value.value.args[0] if isinstance(t.left, ast.Subscript) and isinstance(t.left.value, ast.Attribute) and isinstance(t.left.value.value, ast.Call) and t.left.value.value.args else None
        if not isinstance(arg, ast.Name):
            return None
        d = _single_def(f, arg.id)
        if d is None or not ast.unparse(d).startswith("Command.put_bind("):
            return None
        why = "self-check on the command just built by Command.put_bind (not on received text)"
        self.used[f"phase-selfcheck:{f.qualname}"] = why
        return why

    def _sync_cycle_premise(self) -> bool:
        """Premise of the is_pending/is_imminent exemptions, re-established on every run: the only packets ever put into
        _global_sync_cycles are appended by track_system_syncs.wrapper after `... or pkt._len != 3: ...; return`."""
        if hasattr(self, "_scp"):
            return self._scp  # type: ignore[has-type]
        ok = False
        w = self.ctx.repo.funcs.get("ramses_tx.transport.track_system_syncs.wrapper")
        if w is not None:
            guard_seen = False
            for st in w.node.body:
                if isinstance(st, ast.If) and st.body and isinstance(st.body[-1], ast.Return):
                    t = " ".join(ast.unparse(st.test).split())
                    if "pkt._len != 3" in t and "pkt.code != Code._1F09" in t and " and " not in t:
                        guard_seen = True
                if any(isinstance(n, ast.Call) and " ".join(ast.unparse(n.func).split()) == "_global_sync_cycles.append" for n in ast.walk(st)):
                    ok = guard_seen
                    break
            # no other producer of deque members
            for g in self.ctx.repo.funcs.values():
                if g is w:
                    continue
                for n in own_nodes(g.node):  # own statements only: the wrapper's enclosing decorator is an ancestor of w
                    if isinstance(n, ast.Call) and isinstance(n.func, ast.Attribute) and n.func.attr in ("append", "appendleft", "extend", "insert") and "_global_sync_cycles" in ast.unparse(n.func.value):
                        ok = False
        self._scp = ok
        return ok

    def named(self, f: FuncInfo, node: ast.AST, cls: str, detail: str) -> str | None:
        why = self.NAMED.get((f.qualname, cls.rsplit(".", 1)[-1], detail))
        if why and ("is_pending" in f.qualname or "is_imminent" in f.qualname) and not self._sync_cycle_premise():
            return None  # the premise (only 3-byte I|1F09 packets enter the deque) no longer holds
        if why:
            self.used[f"named:{f.qualname}:{cls.rsplit('.', 1)[-1]}"] = why
        return why

    # -- td(seconds=X.payload[K]) where every parser's value for key K is bounded ----------------------

    def bounded_payload_value(self, f: FuncInfo, node: ast.AST, cls: str) -> str | None:
        if not (isinstance(node, ast.Call) and cls.endswith("OverflowError") and ast.unparse(node.func) in ("td", "timedelta")):
            return None
        ea = getattr(self, "ea", None)
        if ea is None:
            return None
        total = 0.0
        unit = {"days": 86400.0, "seconds": 1.0, "minutes": 60.0, "hours": 3600.0, "weeks": 604800.0}
        for k in node.keywords:
            v = k.value
            if not (k.arg in unit and isinstance(v, ast.Subscript) and isinstance(v.value, ast.Attribute) and v.value.attr == "payload"):
                return None
            try:
                key = self.consts.eval_in(f, v.slice)
            except Exception:
                return None
            if not isinstance(key, str):
                return None
            bounds = []
            for g in self.ctx.repo.funcs.values():
                if g.module.name != "ramses_tx.parsers":
                    continue
                for d in ast.walk(g.node):
                    if isinstance(d, ast.Dict):
                        for kk, vv in zip(d.keys, d.values):
                            if kk is None:
                                continue
                            try:
                                kv = self.consts.eval_in(g, kk)
                            except Exception:
                                continue
                            if kv == key:
                                saved = ea._f
                                ea._f = g
                                try:
                                    b = ea._num_bound(vv)
                                finally:
                                    ea._f = saved
                                if b is None:
                                    return None
                                bounds.append(b)
            if not bounds:
                return None
            total += max(bounds) * unit[k.arg]
        if node.args or not node.keywords or total >= 86399999999999:
            return None
        why = f"every parser value stored under the payload key(s) is bounded: |interval| <= {total:.1f} s"
        self.used[f"bounded-payload:{f.qualname}:{ast.unparse(node)[:50]}"] = why
        return why

    def discharge(self, f: FuncInfo, node: ast.AST, cls: str, detail: str = "") -> str | None:
        return (
            self.bounded_payload_value(f, node, cls)
            or self.dead_table_raise(f, node, cls)
            or self.table_regex(f, node, cls)
            or self.subset_guard(f, node, cls)
            or self.nonempty_pop(f, node, cls)
            or self.phase_selfcheck(f, node, cls)
            or self.named(f, node, cls, detail)
        )


def _always_leaves(body: list[ast.stmt]) -> bool:
    if not body:
        return False
    last = body[-1]
    if isinstance(last, (ast.Return, ast.Raise)):
        return True
    if isinstance(last, ast.If) and last.orelse:
        return _always_leaves(last.body) and _always_leaves(last.orelse)
    return False
