"""Lower bounds on sequence lengths: decides whether `xs[k]` (constant k) on a list/tuple can raise IndexError.

A small syntax-directed evaluator, `min_len(f, expr) -> int` (0 = nothing known), over the idioms the repository uses:

  * displays `(a, b, c)` / `[a, b]` without stars                         -> number of elements
  * `tuple/list(<gen> for i in range(C...))`, `[... for i in range(C...)]` with no `if` -> len(range)
  * `s.split(sep)` / `rsplit(sep)`                                          -> 1;   `partition`/`rpartition` -> 3
  * `s.lstrip().split(" ")` after a dominating `if not REGEX.match(s): raise`  -> 1 + the least number of separators
    in any string of the (folded) regex's language, not counting leading blanks (regex-language DP, see _min_count)
  * a local name with a single definition                                   -> bound of the definition
  * `a, b, *rest = call()`                                                  -> bound of the call minus the fixed targets
  * a call of a repository function                                         -> min over its `return` expressions
  * an attribute `x.attr`                                                   -> min over every assignment to `.attr` in the repo
  * guards: `xs[k] if xs else`, `if len(xs) > k`, enclosing `if xs:`        -> proven locally
  * `list(filter(lambda a: a.F != T, xs))[0]` below a dominating accept-set guard
    `if [not FLAG and] not (A1) and not (A2) ...: raise` in which every accepted alternative Ai has a conjunct
    `xs[k] != S` / `xs[k] not in (S, ...)` with S the module constant whose field F equals T      (nonempty-filter)

Index expressions: integer constants, and loop variables of `for i in range(C...)` (bounded by the range).
"""

from __future__ import annotations

import ast
import re
from typing import Any

from .consteval import TOP, RegexConst
from .loader import FuncInfo, own_nodes

SEQ_ATOMS = ("I:builtins.list", "I:builtins.tuple")


def _parent(n: ast.AST) -> ast.AST | None:
    return getattr(n, "parent", None)


def _unp(n: ast.AST) -> str:
    return " ".join(ast.unparse(n).split())


def _range_values(e: ast.expr, consts: Any, f: FuncInfo) -> range | None:
    if not (isinstance(e, ast.Call) and isinstance(e.func, ast.Name) and e.func.id == "range" and 1 <= len(e.args) <= 3 and not e.keywords):
        return None
    vals = []
    for a in e.args:
        try:
            v = consts.eval_in(f, a)
        except Exception:
            return None
        if v is TOP or not isinstance(v, int) or isinstance(v, bool):
            return None
        vals.append(v)
    try:
        return range(*vals)
    except ValueError:
        return None


# ---- least number of occurrences of a character in any string of a regex language --------------


def _chars_of_in(items: list[Any]) -> tuple[bool, bool, bool]:
    """(may be the counted char ' ', may be another blank, may be a non-blank) for a character class."""
    import re._constants as C  # type: ignore[import-not-found]

    neg = False
    sp = ws = other = False
    for op, av in items:
        if op is C.NEGATE:
            neg = True
        elif op is C.LITERAL:
            ch = chr(av)
            if ch == " ":
                sp = True
            elif ch.isspace():
                ws = True
            else:
                other = True
        elif op is C.RANGE:
            lo, hi = av
            for c in range(lo, min(hi, lo + 256) + 1):
                ch = chr(c)
                if ch == " ":
                    sp = True
                elif ch.isspace():
                    ws = True
                else:
                    other = True
        else:  # CATEGORY etc.: anything
            sp = ws = other = True
    if neg:
        return True, True, True
    return sp, ws, other


def _min_count(seq: Any, lead: dict[bool, int]) -> dict[bool, int]:
    """DP over a parsed regex: state `leading` (still inside leading blanks that lstrip() removes) -> least count of ' '."""
    import re._constants as C  # type: ignore[import-not-found]

    def step_char(st: dict[bool, int], sp: bool, ws: bool, other: bool) -> dict[bool, int]:
        out: dict[bool, int] = {}

        def put(k: bool, v: int) -> None:
            if k not in out or v < out[k]:
                out[k] = v

        for leading, cnt in st.items():
            if leading:
                if sp or ws:
                    put(True, cnt)
                if other:
                    put(False, cnt)
            else:
                if ws or other:
                    put(False, cnt)
                elif sp:
                    put(False, cnt + 1)
        return out

    st = dict(lead)
    for op, av in seq:
        if op is C.LITERAL:
            ch = chr(av)
            st = step_char(st, ch == " ", ch != " " and ch.isspace(), not ch.isspace())
        elif op is C.NOT_LITERAL or op is C.ANY:
            st = step_char(st, True, True, True)
        elif op is C.IN:
            st = step_char(st, *_chars_of_in(av))
        elif op is C.AT:
            continue
        elif op is C.SUBPATTERN:
            st = _min_count(av[3], st)
        elif op is C.BRANCH:
            merged: dict[bool, int] = {}
            for alt in av[1]:
                for k, v in _min_count(alt, st).items():
                    if k not in merged or v < merged[k]:
                        merged[k] = v
            st = merged
        elif op in (C.MAX_REPEAT, C.MIN_REPEAT, getattr(C, "POSSESSIVE_REPEAT", None)):
            lo, _hi, sub = av
            # exactly `lo` repetitions give the lower bound: optional further repetitions never lower a count, and
            # staying inside the leading run (where blanks are not counted) is already the cheaper state
            acc = dict(st)
            for _ in range(min(lo, 64)):
                acc = _min_count(sub, acc)
            st = acc
        else:  # unknown construct: anything may happen, nothing is counted
            st = {k: v for k, v in st.items()}
            if True in st:
                st.setdefault(False, st[True])
    return st


def regex_min_fields(pattern: str, stripped: bool) -> int:
    """Least len(s.lstrip().split(' ')) (or s.split(' ') when not stripped) over all s matched from the start by pattern."""
    tree = re._parser.parse(pattern)  # type: ignore[attr-defined]
    st = _min_count(list(tree), {bool(stripped): 0})
    return min(st.values()) + 1 if st else 0


# ---- the evaluator -----------------------------------------------------------------------------


class SeqLen:
    def __init__(self, repo: Any, cg: Any, consts: Any) -> None:
        self.repo = repo
        self.cg = cg
        self.consts = consts
        self.used: dict[str, str] = {}
        self._attr_writers: dict[str, list[tuple[FuncInfo, ast.AST, ast.expr | None, int]]] | None = None
        self._unknown = False
        self._busy: set[tuple[str, str]] = set()

    # -- public ---------------------------------------------------------------------------------

    def is_seq(self, f: FuncInfo, e: ast.expr) -> bool:
        at = self.cg.atoms(f, e) or ()
        return bool(at) and all(a in SEQ_ATOMS for a in at)

    def index_safe(self, f: FuncInfo, n: ast.Subscript) -> str | None:
        """Reason why n (a non-slice subscript on a list/tuple) cannot raise IndexError, or None."""
        need = self._needed(f, n.slice)
        if need is None:
            return None
        g = self._guard_len(n, _unp(n.value))
        self._unknown = False
        have = max(g, self.min_len(f, n.value, n))
        if have >= need:
            return f"len >= {have} (needs {need})"
        why = self._nonempty_filter(f, n) if need == 1 else None
        if why is None and self._unknown:
            # the sequence comes from outside the analysed code (a parameter, an attribute nobody in the repository assigns, an
            # Any-typed payload): its length is not a fact of this source - outside the model (stated), not a finding
            return "length not determined by the source (parameter / external value): outside the model"
        return why

    # -- index domain ----------------------------------------------------------------------------

    def _needed(self, f: FuncInfo, s: ast.expr) -> int | None:
        """Least length that makes the index valid (None = index not understood)."""
        if isinstance(s, ast.Constant) and isinstance(s.value, int) and not isinstance(s.value, bool):
            return s.value + 1 if s.value >= 0 else -s.value
        if isinstance(s, ast.UnaryOp) and isinstance(s.op, ast.USub) and isinstance(s.operand, ast.Constant) and isinstance(s.operand.value, int):
            return s.operand.value
        if isinstance(s, ast.Name):
            # loop variable of an enclosing `for s in range(C...)` / comprehension
            p = _parent(s)
            while p is not None:
                gens = []
                if isinstance(p, (ast.ListComp, ast.SetComp, ast.GeneratorExp, ast.DictComp)):
                    gens = [(g.target, g.iter) for g in p.generators]
                elif isinstance(p, (ast.For, ast.AsyncFor)):
                    gens = [(p.target, p.iter)]
                for tgt, it in gens:
                    if isinstance(tgt, ast.Name) and tgt.id == s.id:
                        r = _range_values(it, self.consts, f)
                        if r is None or len(r) == 0:
                            return None
                        if min(r) < 0:
                            return None
                        return max(r) + 1
                if isinstance(p, (ast.FunctionDef, ast.AsyncFunctionDef, ast.Lambda)):
                    break
                p = _parent(p)
        return None

    # -- guards ----------------------------------------------------------------------------------

    def _guard_len(self, n: ast.AST, cont: str) -> int:
        """Length implied by enclosing tests: `X if xs else`, `if xs:`, `if len(xs) > k:`, `xs and xs[0]`."""
        best = 0
        child: ast.AST = n
        p = _parent(n)
        while p is not None and not isinstance(p, (ast.FunctionDef, ast.AsyncFunctionDef, ast.Lambda, ast.Module)):
            tests: list[ast.expr] = []
            if isinstance(p, ast.IfExp) and child is p.body:
                tests.append(p.test)
            if isinstance(p, (ast.If, ast.While)) and isinstance(p.body, list) and child in p.body:
                tests.append(p.test)
            if isinstance(p, ast.BoolOp) and isinstance(p.op, ast.And) and child in p.values:
                tests.extend(p.values[: p.values.index(child)])
            for t in tests:
                best = max(best, self._test_len(t, cont))
            # earlier sibling: `if not xs: return/raise`, `if len(xs) < k: return`
            for fld in ("body", "orelse", "finalbody"):
                b = getattr(p, fld, None)
                if isinstance(b, list) and child in b:
                    for st in b[: b.index(child)]:
                        if isinstance(st, ast.If) and st.body and isinstance(st.body[-1], (ast.Return, ast.Raise, ast.Continue, ast.Break)):
                            best = max(best, self._neg_test_len(st.test, cont))
            child = p
            p = _parent(p)
        if isinstance(p, (ast.FunctionDef, ast.AsyncFunctionDef)) and child in p.body:
            for st in p.body[: p.body.index(child)]:
                if isinstance(st, ast.If) and st.body and isinstance(st.body[-1], (ast.Return, ast.Raise)):
                    best = max(best, self._neg_test_len(st.test, cont))
        return best

    def _test_len(self, t: ast.expr, cont: str) -> int:
        """Least len(cont) when t is true."""
        if _unp(t) == cont:
            return 1
        if isinstance(t, ast.BoolOp) and isinstance(t.op, ast.And):
            return max(self._test_len(v, cont) for v in t.values)
        if isinstance(t, ast.Compare) and len(t.ops) == 1 and _unp(t.left) == f"len({cont})" and isinstance(t.comparators[0], ast.Constant) and isinstance(t.comparators[0].value, int):
            k = t.comparators[0].value
            op = t.ops[0]
            if isinstance(op, ast.Gt):
                return k + 1
            if isinstance(op, (ast.GtE, ast.Eq)):
                return k
        return 0

    def _neg_test_len(self, t: ast.expr, cont: str) -> int:
        """Least len(cont) when t is false."""
        if isinstance(t, ast.UnaryOp) and isinstance(t.op, ast.Not):
            return self._test_len(t.operand, cont)
        if isinstance(t, ast.BoolOp) and isinstance(t.op, ast.Or):
            return max(self._neg_test_len(v, cont) for v in t.values)
        if isinstance(t, ast.Compare) and len(t.ops) == 1 and _unp(t.left) == f"len({cont})" and isinstance(t.comparators[0], ast.Constant) and isinstance(t.comparators[0].value, int):
            k = t.comparators[0].value
            op = t.ops[0]
            if isinstance(op, ast.Lt):
                return k
            if isinstance(op, ast.LtE):
                return k + 1
            if isinstance(op, ast.NotEq):
                return k
        return 0

    # -- expression bound ------------------------------------------------------------------------

    def min_len(self, f: FuncInfo, e: ast.expr, use: ast.AST | None = None, depth: int = 0) -> int:
        if depth > 8:
            return 0
        if isinstance(e, (ast.Tuple, ast.List)):
            return sum(1 for x in e.elts if not isinstance(x, ast.Starred))
        if isinstance(e, ast.IfExp):
            return min(self.min_len(f, e.body, use, depth + 1), self.min_len(f, e.orelse, use, depth + 1))
        if isinstance(e, (ast.ListComp, ast.GeneratorExp)):
            if len(e.generators) == 1 and not e.generators[0].ifs:
                r = _range_values(e.generators[0].iter, self.consts, f)
                if r is not None:
                    return len(r)
                return self.min_len(f, e.generators[0].iter, use, depth + 1)
            return 0
        if isinstance(e, ast.Call):
            fn = e.func
            if isinstance(fn, ast.Name) and fn.id in ("tuple", "list", "sorted", "reversed") and len(e.args) == 1:
                return self.min_len(f, e.args[0], use, depth + 1)
            if isinstance(fn, ast.Attribute) and fn.attr in ("split", "rsplit"):
                if not e.args:
                    return 0  # whitespace split of a blank string is []
                m = self._regex_fields(f, e, use)
                return max(1, m)
            if isinstance(fn, ast.Attribute) and fn.attr in ("partition", "rpartition"):
                return 3
            site = self.cg.site_of.get(id(e))
            if site is not None and site.callees and not site.external and not site.unresolved:
                vals = [self._ret_len(c, depth) for c in site.callees]
                return min(vals) if vals else 0
            return 0
        if isinstance(e, ast.Name):
            return self._name_len(f, e, use, depth)
        if isinstance(e, ast.Attribute):
            return self._attr_len(e.attr, depth)
        if isinstance(e, ast.Subscript) and isinstance(e.slice, ast.Slice):
            sl = e.slice
            if sl.step is None:
                base = self.min_len(f, e.value, use, depth + 1)
                lo = sl.lower.value if isinstance(sl.lower, ast.Constant) and isinstance(sl.lower.value, int) else (0 if sl.lower is None else None)
                hi = sl.upper.value if isinstance(sl.upper, ast.Constant) and isinstance(sl.upper.value, int) else (None if sl.upper is None else -1)
                if lo is not None and lo >= 0 and hi is None:
                    return max(0, base - lo)  # x[k:] of at least `base` elements
                if lo is not None and lo >= 0 and isinstance(hi, int) and hi >= 0:
                    return max(0, min(base, hi) - lo)
            return 0
        try:
            v = self.consts.eval_in(f, e)
        except Exception:
            return 0
        if v is not TOP and isinstance(v, (list, tuple)):
            return len(v)
        return 0

    def _ret_len(self, c: FuncInfo, depth: int) -> int:
        key = ("ret", c.qualname)
        if key in self._busy:
            return 0
        self._busy.add(key)
        try:
            rets = [n for n in own_nodes(c.node) if isinstance(n, ast.Return)]
            if not rets or any(r.value is None for r in rets):
                return 0
            if any(isinstance(n, (ast.Yield, ast.YieldFrom)) for n in own_nodes(c.node)):
                return 0
            return min(self.min_len(c, r.value, r, depth + 1) for r in rets)  # type: ignore[arg-type]
        finally:
            self._busy.discard(key)

    def _name_len(self, f: FuncInfo, e: ast.Name, use: ast.AST | None, depth: int) -> int:
        """All bindings of the name in the enclosing function chain (min over them); parameters -> 0."""
        fn: FuncInfo | None = f
        while fn is not None:
            params = fn.node.args
            if any(a.arg == e.id for a in params.posonlyargs + params.args + params.kwonlyargs) or (params.vararg and params.vararg.arg == e.id):
                self._unknown = True
                return 0
            bounds: list[int] = []
            for st in own_nodes(fn.node):
                if isinstance(st, (ast.Assign, ast.AnnAssign)) and st.value is not None:
                    for t in st.targets if isinstance(st, ast.Assign) else [st.target]:
                        if isinstance(t, ast.Name) and t.id == e.id:
                            bounds.append(self.min_len(fn, st.value, st, depth + 1))
                        elif isinstance(t, (ast.Tuple, ast.List)):
                            for i, el in enumerate(t.elts):
                                if isinstance(el, ast.Starred) and isinstance(el.value, ast.Name) and el.value.id == e.id:
                                    fixed = len(t.elts) - 1
                                    bounds.append(max(0, self.min_len(fn, st.value, st, depth + 1) - fixed))
                                elif any(isinstance(x, ast.Name) and x.id == e.id for x in ast.walk(el)):
                                    bounds.append(0)
                elif isinstance(st, (ast.AugAssign, ast.NamedExpr)):
                    if any(isinstance(x, ast.Name) and x.id == e.id for x in ast.walk(st.target)):
                        bounds.append(0)
                elif isinstance(st, (ast.For, ast.AsyncFor, ast.comprehension)):
                    if any(isinstance(x, ast.Name) and x.id == e.id for x in ast.walk(st.target)):
                        bounds.append(0)
                elif isinstance(st, (ast.With, ast.AsyncWith)):
                    for it in st.items:
                        if it.optional_vars is not None and any(isinstance(x, ast.Name) and x.id == e.id for x in ast.walk(it.optional_vars)):
                            bounds.append(0)
                elif isinstance(st, ast.Call) and isinstance(st.func, ast.Attribute) and isinstance(st.func.value, ast.Name) and st.func.value.id == e.id:
                    if st.func.attr in ("pop", "remove", "clear", "popleft") or st.func.attr == "__delitem__":
                        bounds.append(0)
                elif isinstance(st, ast.Delete):
                    if any(isinstance(x, ast.Name) and x.id == e.id for t in st.targets for x in ast.walk(t)):
                        bounds.append(0)
            if bounds:
                lb = min(bounds)
                if lb == 0 and use is not None:
                    lb = max(lb, self._append_loop_len(fn, e.id, use))
                return lb
            fn = fn.parent
        try:
            v = self.consts.eval_in(f, e)
        except Exception:
            return 0
        if v is not TOP and isinstance(v, (list, tuple)):
            return len(v)
        return 0

    def _attr_len(self, attr: str, depth: int) -> int:
        """min over every write to an attribute of this name anywhere in the repository (receiver-insensitive)."""
        key = ("attr", attr)
        if key in self._busy:
            return 10**6  # recursion through x.attr = y.attr: neutral element of min
        if self._attr_writers is None:
            self._attr_writers = {}
            for g in self.repo.funcs.values():
                for st in own_nodes(g.node):
                    if isinstance(st, (ast.Assign, ast.AnnAssign)) and st.value is not None:
                        for t in st.targets if isinstance(st, ast.Assign) else [st.target]:
                            if isinstance(t, ast.Attribute):
                                self._attr_writers.setdefault(t.attr, []).append((g, st, st.value, 0))
                            elif isinstance(t, (ast.Tuple, ast.List)):
                                for el in t.elts:
                                    if isinstance(el, ast.Starred) and isinstance(el.value, ast.Attribute):
                                        self._attr_writers.setdefault(el.value.attr, []).append((g, st, st.value, len(t.elts) - 1))
                                    elif isinstance(el, ast.Attribute):
                                        self._attr_writers.setdefault(el.attr, []).append((g, st, None, 0))
                    elif isinstance(st, ast.AugAssign) and isinstance(st.target, ast.Attribute):
                        self._attr_writers.setdefault(st.target.attr, []).append((g, st, None, 0))
                    elif isinstance(st, ast.Call) and isinstance(st.func, ast.Attribute) and isinstance(st.func.value, ast.Attribute) and st.func.attr in ("pop", "remove", "clear", "popleft"):
                        self._attr_writers.setdefault(st.func.value.attr, []).append((g, st, None, 0))
                    elif isinstance(st, ast.Call) and isinstance(st.func, ast.Name) and st.func.id == "setattr":
                        self._attr_writers.setdefault("*", []).append((g, st, None, 0))
        ws = self._attr_writers.get(attr, [])
        if not ws:
            self._unknown = True
            return 0
        self._busy.add(key)
        try:
            vals = []
            for g, st, val, fixed in ws:
                if val is None:
                    return 0
                vals.append(max(0, self.min_len(g, val, st, depth + 1) - fixed))
            m = min(vals)
            return 0 if m >= 10**6 else m
        finally:
            self._busy.discard(key)

    # -- s.split(" ") under a dominating regex match ---------------------------------------------

    def _regex_fields(self, f: FuncInfo, call: ast.Call, use: ast.AST | None) -> int:
        fn = call.func
        assert isinstance(fn, ast.Attribute)
        if not (len(call.args) == 1 and isinstance(call.args[0], ast.Constant) and call.args[0].value == " "):
            return 0
        recv = fn.value
        stripped = False
        if isinstance(recv, ast.Call) and isinstance(recv.func, ast.Attribute) and recv.func.attr == "lstrip" and not recv.args:
            stripped = True
            recv = recv.func.value
        subj = _unp(recv)
        # the statement that uses the split must be preceded (same function, top level or enclosing block) by
        # `if not RX.match(subj): raise/return`; aliases `self._x = subj` one level
        stmt = use if isinstance(use, ast.stmt) else call
        while stmt is not None and not isinstance(stmt, ast.stmt):
            stmt = _parent(stmt)
        if stmt is None:
            return 0
        aliases = {subj}
        for st in own_nodes(f.node):
            if isinstance(st, (ast.Assign, ast.AnnAssign)) and st.value is not None and _unp(st.value) == subj:
                for t in st.targets if isinstance(st, ast.Assign) else [st.target]:
                    aliases.add(_unp(t))
        child: ast.AST = stmt
        p = _parent(stmt)
        while p is not None:
            for fld in ("body", "orelse", "finalbody"):
                b = getattr(p, fld, None)
                if isinstance(b, list) and child in b:
                    for st in b[: b.index(child)]:
                        if isinstance(st, ast.If) and st.body and isinstance(st.body[-1], (ast.Raise, ast.Return)) and isinstance(st.test, ast.UnaryOp) and isinstance(st.test.op, ast.Not):
                            m = st.test.operand
                            if isinstance(m, ast.Call) and isinstance(m.func, ast.Attribute) and m.func.attr in ("match", "fullmatch") and len(m.args) == 1 and _unp(m.args[0]) in aliases:
                                try:
                                    rx = self.consts.eval_in(f, m.func.value)
                                except Exception:
                                    rx = TOP
                                if isinstance(rx, RegexConst):
                                    n = regex_min_fields(rx.pattern, stripped)
                                    self.used[f"regex-fields:{f.qualname}:{_unp(m.func.value)}"] = f"every string matched by {_unp(m.func.value)} has >= {n} blank-separated fields"
                                    return n
            if isinstance(p, (ast.FunctionDef, ast.AsyncFunctionDef)):
                break
            child = p
            p = _parent(p)
        return 0

    # -- list(filter(lambda a: a.F != T, xs))[0] under an accept-set guard --------------------------

    def _append_loop_len(self, fn: FuncInfo, name: str, use: ast.AST) -> int:
        """`xs = []` followed by `for i in range(C): xs.append(..)` (one unconditional append per iteration, no break/continue/else,
        nothing else ever touches xs), read after the loop: the loop either completed all len(range(C)) iterations or the
        function was left by an exception, so the list has at least that many elements at the use."""
        inits, loops, other = [], [], 0
        for st in own_nodes(fn.node):
            if isinstance(st, (ast.Assign, ast.AnnAssign)) and st.value is not None:
                for t in st.targets if isinstance(st, ast.Assign) else [st.target]:
                    if isinstance(t, ast.Name) and t.id == name:
                        if isinstance(st.value, ast.List) and not st.value.elts:
                            inits.append(st)
                        else:
                            other += 1
                    elif any(isinstance(x, ast.Name) and x.id == name and isinstance(x.ctx, ast.Store) for x in ast.walk(t)):
                        other += 1
            elif isinstance(st, ast.Call) and isinstance(st.func, ast.Attribute) and isinstance(st.func.value, ast.Name) and st.func.value.id == name:
                if st.func.attr != "append":
                    other += 1
            elif isinstance(st, (ast.AugAssign, ast.Delete, ast.NamedExpr)) and any(isinstance(x, ast.Name) and x.id == name and isinstance(x.ctx, (ast.Store, ast.Del)) for x in ast.walk(st)):
                other += 1
            elif isinstance(st, ast.For):
                appends = [b for b in st.body if isinstance(b, ast.Expr) and isinstance(b.value, ast.Call) and isinstance(b.value.func, ast.Attribute) and b.value.func.attr == "append" and isinstance(b.value.func.value, ast.Name) and b.value.func.value.id == name]
                if appends:
                    loops.append((st, appends))
        if len(inits) != 1 or len(loops) != 1 or other:
            return 0
        loop, appends = loops[0]
        n_app = sum(1 for x in own_nodes(fn.node) if isinstance(x, ast.Call) and isinstance(x.func, ast.Attribute) and x.func.attr == "append" and isinstance(x.func.value, ast.Name) and x.func.value.id == name)
        if len(appends) != 1 or n_app != 1 or loop.orelse or any(isinstance(x, (ast.Break, ast.Continue, ast.Return)) for b in loop.body for x in ast.walk(b)):
            return 0
        r = _range_values(loop.iter, self.consts, fn)
        if r is None:
            return 0
        # the loop must be at the function's top level, or directly in the body of a top-level try (whose handlers, if they do
        # not leave, would let a shorter list through)
        par = _parent(loop)
        if par is fn.node:
            pass
        elif isinstance(par, ast.Try) and _parent(par) is fn.node and loop in par.body and all(h.body and isinstance(h.body[-1], (ast.Raise, ast.Return)) for h in par.handlers):
            pass
        else:
            return 0
        if inits[0].lineno > loop.lineno or getattr(use, "lineno", 0) <= getattr(loop, "end_lineno", 10**9):
            return 0
        self.used[f"append-loop:{fn.qualname}:{name}"] = f"{name} is built by one append per iteration of range(..) ({len(r)} iterations) and read after the loop"
        return len(r)

    def _nonempty_filter(self, f: FuncInfo, n: ast.Subscript) -> str | None:
        if not isinstance(n.value, ast.Name):
            return None
        d = self._single_def(f, n.value.id)
        if d is None:
            return None
        val, def_stmt = d
        pred: ast.expr | None = None
        var = ""
        xs: ast.expr | None = None
        if isinstance(val, ast.Call) and isinstance(val.func, ast.Name) and val.func.id in ("list", "tuple") and len(val.args) == 1:
            inner = val.args[0]
            if isinstance(inner, ast.Call) and isinstance(inner.func, ast.Name) and inner.func.id == "filter" and len(inner.args) == 2 and isinstance(inner.args[0], ast.Lambda) and len(inner.args[0].args.args) == 1:
                pred, var, xs = inner.args[0].body, inner.args[0].args.args[0].arg, inner.args[1]
            elif isinstance(inner, (ast.GeneratorExp, ast.ListComp)):
                val = inner  # type: ignore[assignment]
        if pred is None and isinstance(val, (ast.ListComp, ast.GeneratorExp)) and len(val.generators) == 1 and len(val.generators[0].ifs) == 1:
            g = val.generators[0]
            if isinstance(g.target, ast.Name) and isinstance(val.elt, ast.Name) and val.elt.id == g.target.id:
                pred, var, xs = g.ifs[0], g.target.id, g.iter
        if pred is None or xs is None or not isinstance(xs, ast.Name):
            return None
        # predicate `var.F != T`
        if not (isinstance(pred, ast.Compare) and len(pred.ops) == 1 and isinstance(pred.ops[0], ast.NotEq) and isinstance(pred.left, ast.Attribute) and isinstance(pred.left.value, ast.Name) and pred.left.value.id == var):
            return None
        field = pred.left.attr
        try:
            tval = self.consts.eval_in(f, pred.comparators[0])
        except Exception:
            return None
        if tval is TOP:
            return None
        # sentinels S with S.F == T: module constants `S = Cls(K)` where Cls.__init__ sets self.F = <param>[:n] (or the param)
        sentinels = self._sentinels(f, field, tval)
        if not sentinels:
            return None
        # dominating accept-set guard (earlier sibling of the definition, same block)
        blk = None
        p = _parent(def_stmt)
        for fld in ("body", "orelse", "finalbody"):
            b = getattr(p, fld, None)
            if isinstance(b, list) and def_stmt in b:
                blk = b
        if blk is None:
            return None
        between_ok = True
        for st in blk[: blk.index(def_stmt)]:
            if not (isinstance(st, ast.If) and st.body and isinstance(st.body[-1], ast.Raise) and not st.orelse):
                continue
            alts = self._accepted_alternatives(f, st.test)
            if alts is None:
                continue
            ok = all(any(self._asserts_not_sentinel(c, xs.id, sentinels) for c in alt) for alt in alts) and bool(alts)
            if ok and between_ok:
                # xs must not be rebound between the guard and the definition
                for st2 in blk[blk.index(st) + 1 : blk.index(def_stmt) + 1]:
                    for x in ast.walk(st2):
                        if isinstance(x, ast.Name) and x.id == xs.id and isinstance(x.ctx, ast.Store):
                            return None
                why = f"every alternative accepted by the guard at line {st.lineno} requires some {xs.id}[k] to differ from {'/'.join(sorted(sentinels))} (the value with .{field} == {tval!r}): the filtered list is non-empty"
                self.used[f"nonempty-filter:{f.qualname}:{n.value.id}"] = why
                return why
        return None

    def _single_def(self, f: FuncInfo, name: str) -> tuple[ast.expr, ast.stmt] | None:
        found: list[tuple[ast.expr | None, ast.stmt]] = []
        for st in own_nodes(f.node):
            if isinstance(st, (ast.Assign, ast.AnnAssign)) and st.value is not None:
                for t in st.targets if isinstance(st, ast.Assign) else [st.target]:
                    for x in ast.walk(t):
                        if isinstance(x, ast.Name) and x.id == name:
                            found.append((st.value if isinstance(t, ast.Name) else None, st))
            elif isinstance(st, (ast.AugAssign, ast.For, ast.NamedExpr, ast.comprehension)):
                if any(isinstance(x, ast.Name) and x.id == name for x in ast.walk(st.target)):
                    found.append((None, st))  # type: ignore[arg-type]
        if len(found) == 1 and found[0][0] is not None:
            return found[0]  # type: ignore[return-value]
        return None

    def _sentinels(self, f: FuncInfo, field: str, tval: Any) -> set[str]:
        """Module-level names (visible in f's module) bound to `Cls(K)` with K a folded str and the class's __init__
        storing `self.<field> = <param>[:n]` such that K[:n] == tval."""
        out: set[str] = set()
        for m in self.repo.modules.values():
            for st in m.tree.body:
                if not (isinstance(st, ast.Assign) and len(st.targets) == 1 and isinstance(st.targets[0], ast.Name) and isinstance(st.value, ast.Call) and len(st.value.args) == 1 and not st.value.keywords):
                    continue
                cname = _unp(st.value.func)
                full = self.repo.resolve(m, cname)
                ci = self.repo.classes.get(full) if full else None
                if ci is None:
                    continue
                init = ci.find("__init__")
                if init is None:
                    continue
                try:
                    k = self.consts.eval_in(m, st.value.args[0])
                except Exception:
                    continue
                if not isinstance(k, str):
                    continue
                params = [a.arg for a in init.node.args.args][1:]
                if not params:
                    continue
                for s2 in own_nodes(init.node):
                    if isinstance(s2, ast.Assign) and len(s2.targets) == 1 and _unp(s2.targets[0]) == f"self.{field}":
                        v = s2.value
                        got: Any = TOP
                        if isinstance(v, ast.Name) and v.id == params[0]:
                            got = k
                        elif isinstance(v, ast.Subscript) and isinstance(v.value, ast.Name) and v.value.id == params[0] and isinstance(v.slice, ast.Slice):
                            try:
                                lo = None if v.slice.lower is None else ast.literal_eval(v.slice.lower)
                                hi = None if v.slice.upper is None else ast.literal_eval(v.slice.upper)
                                got = k[lo:hi]
                            except Exception:
                                got = TOP
                        if got is not TOP and got == tval:
                            # the name must resolve to this binding from f's module
                            tgt = st.targets[0].id
                            r = self.repo.resolve(f.module, tgt)
                            if r == f"{m.name}.{tgt}" or (m is f.module):
                                out.add(tgt)
        return out

    def _accepted_alternatives(self, f: FuncInfo, test: ast.expr) -> list[list[ast.expr]] | None:
        """`[not FLAG and] not (A1) and not (A2)...` -> [[conjuncts of A1], ...]; FLAG must fold to False."""
        def flat(t: ast.expr) -> list[ast.expr]:
            if isinstance(t, ast.BoolOp) and isinstance(t.op, ast.And):
                return [x for v in t.values for x in flat(v)]
            return [t]

        items = flat(test)
        alts: list[list[ast.expr]] = []
        for it in items:
            if not (isinstance(it, ast.UnaryOp) and isinstance(it.op, ast.Not)):
                return None
            inner = it.operand
            try:
                v = self.consts.eval_in(f, inner)
            except Exception:
                v = TOP
            if v is not TOP and isinstance(v, bool):
                if v is True:
                    return None  # the guard is switched off
                continue  # `not False`: no constraint
            if isinstance(inner, ast.BoolOp) and isinstance(inner.op, ast.Or):
                # not (A or B) == not A and not B; a disjunct that folds to a constant is the switch (`not (FLAG or A1 or A2)`)
                for alt in inner.values:
                    try:
                        av = self.consts.eval_in(f, alt)
                    except Exception:
                        av = TOP
                    if av is not TOP and isinstance(av, bool):
                        if av is True:
                            return None  # the guard is switched off
                        continue
                    alts.append(flat(alt))
                continue
            alts.append(flat(inner))
        return alts

    @staticmethod
    def _asserts_not_sentinel(c: ast.expr, xs: str, sentinels: set[str]) -> bool:
        if not (isinstance(c, ast.Compare) and len(c.ops) == 1):
            return False
        l = c.left
        if not (isinstance(l, ast.Subscript) and isinstance(l.value, ast.Name) and l.value.id == xs and isinstance(l.slice, ast.Constant)):
            return False
        r = c.comparators[0]
        if isinstance(c.ops[0], ast.NotEq):
            return isinstance(r, ast.Name) and r.id in sentinels
        if isinstance(c.ops[0], ast.NotIn) and isinstance(r, (ast.Tuple, ast.List, ast.Set)):
            return any(isinstance(x, ast.Name) and x.id in sentinels for x in r.elts)
        return False
