"""Per-property MANIFEST entries (level text, technique, trusted base)."""

BASE_NOTE = (
    "Trusted base: python ast; mypy 2.3.1 (the repo's own dev dependency) as a type resolver; ramlint's engine; the implicit/external "
    "raiser table and the named exceptions printed in the evidence. Structural static verification: decides the stated clauses for every "
    "path/site/table row on the current tree; does not execute the repository."
)

CHECKS = [
    {
        "id": "C01",
        "technique": "static analysis: inter-procedural exception-effect closure over a type-resolved call graph; loop-body isolation; def-use dependence; sequence-length lower bounds for list/tuple indexing (regex-language field counts, accept-set guards)",
        "text": "Decides, for every raise/assert/implicit-raiser site reachable from the packet/message constructors and the transport/protocol "
        "receive callbacks (all 106 payload parsers included), that only PacketInvalid (or ValueError for Packet.from_*) can leave the "
        "constructors, that nothing leaves a receive callback or one iteration of a line-reading loop, and that serial frames depend on the "
        "persistent receive buffer. Does not decide that valid lines decode correctly, nor frame equality over all read partitions (values). IndexError from constant/range-bounded indexes into lists and tuples is modelled: each such site on the receive path is proven in bounds (e.g. the number of blank-separated fields of every string COMMAND_REGEX matches; the non-emptiness of pkt_addrs' filtered address list from its accept-set guard) or reported. Also decides (R4.iv): every search for the line terminator is made on the carried buffer, not on the newly read bytes alone. Session 5: R5 - every set_result()/set_exception() reachable from a receive callback is on the not-done side of a done() test of the same future; R6 - no read of a possibly-unbound local (mypy's possibly-undefined diagnostic kept as a fact) on the receive path, discharged where the binding is proven for every payload length the code's regexes admit. The exception model also follows the logging hooks (record factory, makeRecord, Filter.filter run inside every logging call), JSON-any values of json.loads() and datetime.timestamp() near datetime.min/max.",
        "note": BASE_NOTE,
    },
    {
        "id": "C13",
        "technique": "static analysis: bracket pairing on all exits over a CFG with exceptional and cancellation edges; restricted exception-effect closure; single-writer and dominance rules; input-dependent asserts and list/tuple index bounds in the views' closure; boolean-structure rule on the array-merge predicate",
        "text": "Decides that every path from Engine._pause() to any exit of Gateway.get_state/_restore_cached_packets (normal, exceptional, "
        "cancellation at each await) passes _resume(); that no public view (schema/params/status/traits/known_list/fault-log views, 59 "
        "properties) can raise ArithmeticError or a KeyError from a payload-derived key; that the fault-log map only holds timestamps present "
        "in the log; and that the gateway's message handlers and process_msg are fenced with entity handlers deferred. Does not decide "
        "'every view after every history' beyond these classes, nor that foreign traffic never alters tracked state (behavioural). The view closure also excludes AssertionError from asserts on payload-derived data and IndexError from constant indexes into sequences of unproven length. Also decides: the array-fragment merge requires whole-source and code equality and a time window as conjuncts of its predicate. Also decides (R5): a message whose payload a view iterates as a list of dicts is only parked under a list test of its payload, and every constant payload key a view subscripts is present in every dict its producing parser/helper returns. R6: no class-level container is mutated through self without a per-instance re-binding (entities do not share state). Session 5: R1 also - no store to an object Engine._pause/_resume act through (_transport/_protocol) inside the pause bracket unless put back before the resume; R7 - classes an object is promoted to by `self.__class__ = ...` (the HVAC classes of the folded eavesdropping table, the zone classes) read no instance attribute that only their own __init__ would have set. Round 4: R4 also - the dispatcher never classes a packet's destination by that packet; R6 also counts augmented assignment of a class-level container as in-place mutation.",
        "note": BASE_NOTE + " datetime within 10 years of datetime.min/max is outside the model for this property.",
    },
    {
        "id": "C18",
        "technique": "static analysis: bracket pairing on all exits (CFG with exceptional + cancellation edges); alias rule for module-level mutable constants; path/dominance rules; finite abstract evaluation (decision table with effects) of _is_dated",
        "text": "Decides that every path from tcs._obtain_lock() to any exit of a schedule transfer (incl. protocol errors from each fragment "
        "exchange and cancellation by the caller's timeout at each await) passes _release_lock(); that no module-level mutable sentinel is "
        "aliased by an instance attribute that is mutated in place; that the change counter is read with I/O before the first fragment request; "
        "and that overheard fragments are merged only under a test of the lock owner. Does not decide 'never a schedule stitched from two "
        "versions' as a trace property, nor termination of the fragment loop. Also decides, from the decision table of Schedule._is_dated (opaque results of awaited calls are fresh atoms, calls are logged as effects): with force_io=True a 'not dated' answer is only given after the change counter was read with I/O. R3 also: a protocol error from the RQ|0006 exchange in _schedule_version cannot be swallowed (a lost version query fails the fetch). Session 5: R5 - every handler around a fragment/version exchange in _get_schedule/set_schedule re-raises on all paths; R6 - the fetch loop has no normal exit other than a break under a test of the assembled schedule; R7 - the transfer is awaited directly/through wait_for(), or its task is cancelled. Round 4: R8 - set_schedule stores the new schedule only after the fragment loop; shared futures are resolved on every exit (cancellation included); a decompressobj inflate requires eof.",
        "note": BASE_NOTE,
    },
    {
        "id": "C20",
        "technique": "static analysis: future typestate (pending/done/cancelled) with dominance-based discharges; state-chain table rule; restricted exception-effect closure; timer pairing",
        "text": "Decides, over binding_fsm.py, that no set_result/set_exception reachable from a timer/message callback or the timeout path can run "
        "on a done/cancelled future and that no wait_for() is applied to the bare state future; that every state's success chain ends in a "
        "not-binding state and every failure path (wait timer, send failure) transitions to DevHasFailedBinding before the error reaches the "
        "caller; that only BindingError/CommandInvalid can leave the two entry points (send errors converted by one helper, used for every "
        "binding command); that armed wait timers are cancelled on leaving the state; and that the three 1FC9 phase tests are mutually exclusive. "
        "Does not decide that both ends succeed under every interleaving (behavioural). R6: only a 1FC9 *offer* is fanned out to every binding device (the fan-out's guard implies phase == offer). Session 5: R7 - every normal return of the state's wait passes the transition to the next context state; per-attempt state accumulated while receiving is reset by both entry points or by neither. Round 4: R1's scope includes what a coroutine calls on the failure path of an awaited send.",
        "note": BASE_NOTE,
    },
    {
        "id": "C09",
        "technique": "static analysis: future typestate; single-writer rule; exception-effect closure of scheduled callbacks with memo-initialisation flow facts; lock bracket pairing",
        "text": "Necessary conditions only: decides that no set_result/set_exception in protocol_fsm.py can run on a done/cancelled future "
        "(cancelled() tested first), that ProtocolContext._state has a single writer, that nothing can escape into the event loop from the "
        "callbacks/tasks the FSM schedules or from the protocol's notifications (header reads are proven initialised under a fence: commands "
        "in send_cmd before queueing, packets in pkt_received), that the FSM lock is released on every path and each dequeue is matched by "
        "task_done(), and that a disconnect resolves the in-flight future with TransportError. Does not decide that the FSM returns to idle "
        "after every episode, nor that its 'Coding error' self-checks cannot trip (reachability over interleavings). Session 5: R8 - after its sleep every normal path of the expiry callback passes set_state() (an expired wait always changes the state). Round 4: R9 - an Inactive state answers no callback with set_state() except connection_made (inherited methods must exclude the Inactive state first).",
        "note": BASE_NOTE,
    },
    {
        "id": "C06",
        "technique": "static analysis: structural rules over pkt_header/_pkt_idx (discriminator completeness), table agreement of the verb maps, guard dominance over the FSM's packet handlers; boolean-structure-aware guard implication; column-coverage rule between Frame._ctx and _pkt_idx; string-template abstraction of header builders; decision tables of both FSM receive functions",
        "text": "Necessary conditions: every header joins code + verb + device id and appends the payload context whenever it is a string; "
        "the RQ->RP / W->I reply map agrees between frame.pkt_header and the dispatcher; every FSM transition on a received packet is "
        "dominated by whole-header ==/!= tests against the sent command (no prefix/substring matching) with the single enumerated 0418 "
        "null-entry exception, and the gateway-id placeholder is substituted on both sides. Does not decide that real replies carry the "
        "same context bytes, nor near-miss rejection over all values. Guards are only credited when their truth follows from the edge taken (conjuncts on a true edge, disjuncts on a false edge). Also decides: for every code-specific branch of Frame._ctx, the payload columns the context is built from cover the columns _pkt_idx reads for that code. R5: the complete decision tables of WantRply.pkt_rcvd and WantEcho.pkt_rcvd - a packet is accepted as the reply exactly when its header equals the reply header (or it is the enumerated 0418 null-entry) and, before the echo, it is addressed to the command's sender (literally or via the placeholder/real gateway id): nothing else is accepted and these always are. Session 4: headers are recognised by the text they build (f-string, join, +, format alike; in pkt_header or a helper it calls): every construction starting with the code has exactly code|verb|device id; reply headers are built only where verb not in (I, RP) and src != dst is known; every row of the decision tables of WantEcho/WantRply.pkt_rcvd that makes a transition has a whole-header equality true (or is the enumerated 0418 null-entry row). Round 4: R5 also - echo completeness: on every path of WantEcho.pkt_rcvd's decision tree on which the echo-header equality holds, the state machine is moved on.",
        "note": BASE_NOTE,
    },
    {
        "id": "C07",
        "technique": "static analysis: bounded-await rule over the resolved send path, exception-effect closure, provenance/dominance and field-group coherence rules",
        "text": "Necessary conditions: every await on the caller's path of PortProtocol.send_cmd is a send-path coroutine or "
        "wait_for(timeout=min(qos.timeout, SEND_TIMEOUT_LIMIT)) with the limit folding to 20.0; only ProtocolError can leave send_cmd "
        "(every class set on the future is converted); a result handed to the caller is a header-matched received packet; the future is "
        "only (re)bound together with its command and QoS; the QoS debug flags are off. Does not decide completion time under arbitrary "
        "schedules beyond the cap being in place; ReadProtocol (raises NotImplementedError by design) is outside the quantifier. R1 also: QosParams never raises the caller's timeout (its defining expression is folded for a range of caller values). Session 5: R4 also - the timeout handler's in-flight test reads only fields set_state() resets on completion; R6 - no memoised factory returns an object of a class whose instances are rewritten in place (QosParams). Round 4: R7 - the impersonation notice is awaited where it is sent; asyncio queue exceptions are in the raiser table (R2).",
        "note": BASE_NOTE,
    },
    {
        "id": "C08",
        "technique": "static analysis: who-may-call + guard dominance, reaching definitions, interval analysis of the back-off exponent, queue-key typing; finite-domain abstract evaluation of the exponent's net effect around the wait; interprocedural value-flow rule for the caller's QosParams",
        "text": "Necessary conditions: retransmission only through one function, called from the dequeue and from effect_state under timed_out; "
        "timed_out requested at one site on the true edge of tx_count < tx_limit; tx_limit = min(qos.max_retries, min(arg, 3)) + 1; the "
        "back-off exponent provably stays in 0..3 and both waits are timeout * 2**exponent; one dequeue site, reached only with no future "
        "pending, skipping resolved entries; queue entries order by priority then a unique counter before any unorderable element. "
        "Does not decide 'exactly 1+min(r,3) transmissions', FIFO or doubling as observed in time. Also decides, by evaluating the coroutine's own updates of the exponent over its 0..3 domain: an unanswered wait leaves it at min(3, m+1) (the next wait is doubled, capped at 8x) and an answered one never raises it. Also decides: on every hop from the public send APIs down to ProtocolContext.send_cmd the QosParams handed on is the one received (or forwarded **kwargs), or a rebuild whose max_retries is carried over - never a fresh object built from the caller's other values. Session 5: R5 also - every queue-entry key ahead of the arrival counter, bar the priority, is a plain clock read (first-come-first-served within a priority); R7 - the sender's wait leaves the entry's future done whenever the sender stops waiting (unshielded wait_for(), or cancel in handlers for TimeoutError and CancelledError). Round 4: R4 also - the dequeue is only scheduled where the state is known to be IsInIdle; R6 also carries the caller's timeout over a QosParams rebuild.",
        "note": BASE_NOTE,
    },
    {
        "id": "C10",
        "technique": "static analysis: gate dominance in the filter mixin, MRO/who-may-call rules, clause-order and allow-set rules over the filter's decision list; finite abstract evaluation (complete decision table) of the filter predicate; memo-key completeness; write-once rule for the filter configuration",
        "text": "Decides that delivery and transmission are reachable only on the wanted edge of _is_wanted_addrs (for both src and dst, with the "
        "sending flag on the send gate), that no path bypasses the gates (MRO order, who may call _pkt_received/_msg_received/write_frame, the "
        "signature probe being the one named exception), that the block-list test precedes every allow clause, that the clauses exempt from "
        "known-list enforcement are exactly {active gateway, listed (incl. broadcast/null ids), sending from the placeholder id}, that devices "
        "are only created under check_filter_lists, and that select_device_filter_mode never switches enforcement on. Does not evaluate the "
        "full truth table over all configurations. R3/R4 are read off the complete decision table of _is_wanted_addrs computed by abstract evaluation of its source (per id: block-listed / active gateway / in known list / placeholder; flags sending, enforce_include): a block-listed src or dst is never wanted; under enforcement a packet is wanted iff both ids are in the stated allow set; without enforcement only the block list refuses. Also decides: no remembered verdict is looked up by a subset of the arguments, and the block list / known list / enforcement flags are written only in constructors. Session 5: R8 - the id installed as the active gateway is a learned id: no or-fall-back, get_extra_info default, placeholder or configured id reaches _set_active_hgi(). The decision table of _is_wanted_addrs is expanded only over the atoms the rules read.",
        "note": BASE_NOTE,
    },
    {
        "id": "C11",
        "technique": "static analysis: who-may-call, decorator-stack and dominance/post-dominance rules over the limiter; constant folding of the rate constants; def-use dependence of the written bytes; dataflow role recovery of the bucket variables; flow-sensitive snapshot analysis across awaits (atomicity); refill/stamp pairing on all paths",
        "text": "Regulator-in-place only - the numeric bound (bits per window, average spacing) is arithmetic over time and is not decided. Decides "
        "that nothing reaches serial.write / mqtt publish except through the regulated write_frame (bounded start-up probe excepted), that the "
        "decorators and the write-gap semaphore are in place and selected by constants in range, that the bucket is refilled before the test, "
        "the wait precedes the write and the debit post-dominates the write on all exits, that an over-budget MQTT write is dropped (nothing "
        "queues frames), and that the bytes written depend only on the frame argument. The limiter's statements are identified by dataflow roles (level, stamp, refill, debit, write), not by text. Also decides: no shared bucket variable is written from a snapshot of itself taken before an intervening await (lost-update under concurrent writers), and every refill is paired on all paths with an update of the time stamp it was computed from (serial limiter and MQTT token bucket). Session 5: R3 also - the debit is exact (not clamped or re-based); the MQTT limiter is located through the write path; R4 also - no suspension point (await, async with a lock) precedes the over-budget decision. Round 4: R6 also - the refill caps the level (not the elapsed time) at the capacity; R4 also - no await between the over-budget test and the token debit.",
        "note": BASE_NOTE,
    },
    {
        "id": "C03",
        "technique": "static analysis: registry agreement over folded tables, guard satisfiability (interval reasoning), abstract interpretation of payload strings into regular shapes with automata inclusion in the decoder's regexes; format-spec lint on payload segments; statement-order rule (validate after normalise)",
        "text": "Decides that each constructor is registered in CODE_API_MAP under exactly the (verb, code) pairs it can emit and that every public "
        "constructor is registered; that every guard of a `raise CommandInvalid` is satisfiable; that, for every constructor whose payload "
        "abstracts to a regular shape (fixed-width hex from format specs refined by the constructor's own range guards, codec helpers "
        "summarised from their source), the shape is included in the decoder's regex for that verb/code (shortest counter-example otherwise; "
        "index-taking constructors are grouped under _check_idx with the accepted index set per constructor); and OpenTherm parity agreement. "
        "Does not decide that decoded values equal the arguments passed (needs execution). Also decides: no payload segment that flows into a frame is formatted in decimal (unless its range is proven <= 9); no CommandInvalid guard reads a parameter ahead of the statement that re-binds it from itself, and no function that normalises an index with _check_idx() compares the raw parameter with index constants. The shape interpreter folds finite value sets, fixed-width slices, calendar ranges of timetuple() fields, dict-display subscripts, AttrDict._hex and call-site constants (e.g. set_system_time is checked field by field against the 313F regex); a numeric field a constructor writes in hex at fixed columns must not be read back by parser_<code> with a base-10 int().",
        "note": BASE_NOTE + " Hex widths from format specs are exact modulo the codec's representable range (C04). Constructors whose payload does not abstract (listed in the evidence as undecided) are not covered by R3.",
    },
    {
        "id": "C02",
        "technique": "static analysis: field layout derived by parsing the frame regexes vs constant slices; format-width agreement; field-order and delimiter agreement between writers and readers; finite abstract evaluation (decision table) of the seqn normalisation; mutation/alias rule for the logger's record mapping",
        "text": "Decides that every reader and writer of frame/log text agrees on where each field is: constant slices of frame text start/end on "
        "the field boundaries derived from COMMAND_REGEX/MESSAGE_REGEX and cover the field they are used as; the packet-log timestamp width "
        "computed from the formatter equals the readers' slice constants; Frame.__repr__/Command._from_attrs join fields in the order "
        "Frame.__init__ reads them with len = payload bytes; the annotation delimiters consumed equal those emitted, comment outermost. "
        "Does not decide identity for every verb/seqn/address shape (values). Also decides: a truncating slice on an assembled payload keeps the regex's maximum payload width; the seqn normalisation maps only None/blank forms to '---' (decision table over seqn in {None, 0, 7, '', '---', '000'}); and _Logger.makeRecord mutates its `extra` mapping (the packet's own __dict__) only after re-binding it to a copy. Session 5: R2 - every isoformat() that writes packet/log text has timespec='microseconds'; R3 - Command.from_cli keeps three given address fields in their positions; R5 - the packet-log filter decides on the record's level alone and keeps no state. Round 4: R5 also - Packet._dtm has one writer (the constructor) and the packet's log record is stamped from it unconditionally.",
        "note": BASE_NOTE,
    },
    {
        "id": "C04",
        "technique": "static analysis: numeric-idiom lint typed by mypy (truncating float scaling), sentinel-table inverse, bit-layout agreement by constant folding, sibling agreement, range-guard dominance; flow-sensitive column tracking of the date-time encoder's string; structural mask/shift extraction with per-field guard bounds; decoder-resolution rule",
        "text": "Decides the structural clauses of the codec property: encoders scale with a rounding idiom (int(float*k) must mis-encode some grid "
        "points - IEEE-754), sentinel tables of each encoder/decoder pair are mutual inverses, packed timestamp / datetime / device-id bit and "
        "column layouts agree between encoder and decoder, the duplicated device-id codecs agree, and every fixed-width hex field is bounded by "
        "a raising guard, a mask or construction (no silent wrap). Exactness on the whole grid (65,536 words, 2^24 ids) is about values and is "
        "not decided. Also decides: the DST flag (| 0x80) is or-ed into the seconds octet on every path through hex_from_dtm (the columns already cut off the string are tracked per program point) and the decoder masks that octet with 0b1111111. Session 4: the packed device id's fields are read off the expressions (constant-folded masks/shifts, complementary over 24 bits) and each field must be bounded to its own width by a raising guard; a decoder-only sentinel that lies inside the encoder's numeric image is reported (the wire's second N/A word 31FF is the one frozen exception); flag lists must be length- and element-guarded; a paired decoder's raw/K quotient must reach its return without a coarser round()/int()/floor division. Session 5: R3 - the image of each calendar field hex_from_dts shifts into place stays on the field's grid (interval reasoning through %, &, +/-); R5 - a two's-complement encoder's raising guard covers the decoder's numeric domain bar its sentinels; R6 - no clamp in a paired decoder; R7 - no unaligned byte-pattern search in the hex text of a decoder. Round 4: R6 also - the sign fold of a two's-complement decoder folds exactly the words >= 2**(n-1) (folded at the boundary); R8 - no hex_* codec reads the clock/timezone, and an argument not pinned to a re-iterable type is iterated at most once.",
        "note": BASE_NOTE,
    },
    {
        "id": "C17",
        "technique": "static analysis: struct-format agreement computed from the format strings, numeric-idiom rule, constant/regex-bound agreement and shape inclusion for the fragment write; path rule on the reassembly function; guard-knowledge rule (facts at a call site, incl. short-circuit operands) and who-may-call for the decoder; memoisation rule",
        "text": "Decides that pack/unpack agree on byte order, record size (= the decode stride) and field offsets; that setpoints are scaled with a "
        "rounding idiom and decoded by /100, time-of-day and zone-index codecs are inverse shapes; that a fragment (82 hex digits) equals the "
        "0404 regex bound and header+fragment fits the 48-byte frame payload, and the fragment-write payload shape is in the W|0404 regex "
        "language; and that the validator's time/setpoint grids fit the codec's. Identity for all schedules and reassembly under permuted or "
        "repeated fragments are value/history properties and are not decided. Also decides: in _update_payload_set every path after the fragment-count test stores the received fragment in its slot or restarts the set with it (a received fragment is never discarded in favour of an older copy). Also decides: _proc_payload_set is called only from _update_payload_set and only where `None in <set>` is known false (or on the constant empty set), so a set with a gap is never handed to the decoder; and no function on the schedule codec path is memoised while returning a mutable container (decoded schedules are edited in place by their consumers). Anchors are found through the module scope of the codec functions (closures and same-module helpers), formats by constant folding. Session 5: R3 also folds a computed chunk size for every blob length up to 12 fragments against the regex bound; R8 - parser_0404 reads header fields at non-negative constant offsets only. Round 4: R5 also - the fragment set is restarted on the fragment count alone; R9 - no record of the inflated blob and no overheard fragment is passed over on anything but the code, the no-schedule marker and the lock owner.",
        "note": BASE_NOTE,
    },
    {
        "id": "C05",
        "technique": "static analysis: JSON typing of produced values (mypy types + syntactic provenance), purity/effect analysis over the decode path's call graph, stride-vs-table agreement, guard rule for ratios, dispatch exhaustiveness; memoisation rule (cached functions return immutable values)",
        "text": "Decides that no value a payload parser (or helper) places in a returned dict has a non-JSON type; that nothing reachable from "
        "Packet()/Message() reads a clock/RNG/environment, declares global state or writes outside the frame's own memo fields (so decoding "
        "cannot depend on prior packets or caches); that each array-capable parser steps by 2 x the element length of CODES_WITH_ARRAYS; that "
        "every x/200 ratio is guarded at 1.0; and that every schema code has a registered parser. Does not decide element-wise equality of "
        "values nor physical ranges beyond the guards. Also decides: every memoised (lru_cache) function on the decode path returns immutable values only, so no in-place annotation of one packet's payload can leak into another's. R4 uses interval reasoning: a one-octet raw value divided by 100/200 must be bounded at 1.0 by a guard on the quotient, or on the raw value with a bound <= the smallest possible divisor. Session 5: R6 - inside the array walk of every array-capable parser the payload is read only through slices relative to the walk's index (an element's value cannot depend on its neighbours or on the array's length).",
        "note": BASE_NOTE,
    },
    {
        "id": "C14",
        "technique": "static analysis: path rule over the CFG of the value reader, constant/operator rules on the expiry predicate, input-dependence of the lifetime function, store-key rule; key-path extraction of the message store; selection-by-recency rule; finite abstract evaluation (decision table) of the expiry update chain; accessor discipline for payload reads; loop-abandonment rule for the expiry clean-up",
        "text": "Decides that every path on which msg._expired was true ends in `return None` in the value reader; that expiry is "
        ">= HAS_EXPIRED with HAS_EXPIRED = 2.0, a 3 s grace subtracted from the age, the latch tested before any recomputation and "
        "CANT_EXPIRE -> False; that pkt_lifespan returns a timedelta on every path from verb/code/array-ness/the 3220 id only (no clock) and "
        "the schema's lifespan rows fold to timedelta|False|None; and that the message store is unconditional and keyed by the message's own "
        "code/verb/context. Does not decide freshness under interleaving as a trace property. Also decides: the message handed to the value reader is always a keyed lookup or max() over all candidates (Message orders by dtm); every non-RQ 1F09 takes its lifetime from the payload countdown in every row of the decision table of Message._expired's update chain; the per-context store is keyed [code][verb][_ctx] on every store path; and no entity property reads <Message>.payload (or an attribute caching a payload) without an _expired test (213 properties). R2 also: from the decision table of Message._expired (with effects), a 'not expired' verdict is never served from the memoised fraction except for 'cannot expire'. Also decides: whether and where a new message is filed never depends on what the store already holds or on a timestamp comparison (a test over the DB is accepted only when both arms file the message in the same stores); and in _delete_msg every deletion inside the loop over the entities is KeyError-safe within its own iteration (suppress/try inside the loop, a membership test, or pop with default) and both stores are cleaned - one entity that does not hold the message cannot end the clean-up for the rest. Session 5: R4 also - _handle_msg writes only the message's own entry (no re-build or deletion of the index); R8 also - a removal from the per-code store is conditional on the entry being this very message; R9 - an array message is delivered to zones selected from its own elements. Round 4: R2 also - the memoised 'cannot expire' answer is keyed on equality with the sentinel; R3 also - Packet._lifespan has one writer and Engine._dt_now never answers with a message's timestamp.",
        "note": BASE_NOTE,
    },
    {
        "id": "C12",
        "technique": "static analysis: table exhaustiveness of the probe set (constant folding of role maps and registered payloads), handler coverage by guard dominance, must-write rule, monotone-container rule, restricted exception closure; post-dominance rule after class promotion; reaching-definition rule for the discovery decision; snapshot-across-await rule for the discovery call",
        "text": "Narrow claim - reconstruction for every configuration under every loss pattern is behavioural and not decided. Decides that every "
        "role the controller can report (all heat-zone classes, sensor role, appliance control, both DHW valves, DHW sensor, each zone's own "
        "actuator role) is probed by a registered discovery command; that each probed code has a handler branch that attaches what the reply "
        "names; that a failed send re-arms the next-due time, is fenced, and cannot end the poller; and that the topology containers only "
        "grow. The explicit LookupError in _get_msg_by_hdr is listed as undecided. Also decides: every zone promotion (`self.__class__ = ...`) is followed on all paths by a rebuild of the probe table, and in Gateway.start the restoring assignment of config.disable_discovery dominates the test that guards initiate_discovery(). Also decides: the arguments of the call that starts the discovery pollers are read at the call, or are aliases of live containers - not a local bound, before an await, to a property that builds a new list (systems created while start() was suspended would never be polled). Session 5: R7 - a due discovery request is sent: every skip before the send in discover() is a not-due or deprecated-code test, and send_disc_cmd transmits before it can return. Round 4: R2 also - the 000C role filter passes every probed role (folded per role); R3 also - None-able polling-table entries are dereferenced only under a test of them.",
        "note": BASE_NOTE,
    },
    {
        "id": "C15",
        "technique": "static analysis: guarded-single-writer rule for topology fields, produced-keys ⊆ accepted-keys by structural extraction of the voluptuous schemas, regex-language vs index-range agreement (automata); acceptance-order and clearing rules for topology writes; regex-language inclusion for unconstrained roles; truth-table strength of the parent-change and controller-change guards",
        "text": "Decides that the parent/controller/role fields of the topology are only written in constructors, in Child.set_parent after the "
        "parent- and controller-change checks, in Parent._add_child under an 'already set and different => SystemSchemaInconsistent' test, or "
        "from get_device(..., parent=self); that the literal keys produced by the schema properties are accepted by the PREVENT_EXTRA "
        "validators; that the zone-index domain allowed by max_zones is within the validator's idx regex and Length bound; and the duplicate "
        "guards. Does not decide that a re-loaded schema reproduces the same objects (execution). Also decides: set_parent records _parent/_child_id only after parent._add_child() accepted the child; role fields are never cleared outside constructors; and a role that _add_child admits without any type test on the child is reported under a schema key whose validator accepts every well-formed device id (else finding F30). Also decides: Child._get_parent raises SystemSchemaInconsistent for *every* child that already has a different parent (the guard's test is implied by `self._parent and self._parent != parent` - no further condition may excuse it), and set_parent's controller-change check is logically `self.ctl and self.ctl is not <new>` wherever it is written (inline or in a private method whose call dominates the writes). Session 5: R1 also - a change check that reads a property is accepted only if the property is a pure alias of the field written; R6 - a schema view served from a memo needs every writer of its inputs (properties expanded, class changes included) to reset the memo; R7 - no schema loader leaves its walk over the roles because one role is absent. Round 4: R8 - every return of Child.set_parent is dominated by _get_parent(); system/zone factories do not dispatch messages.",
        "note": BASE_NOTE,
    },
    {
        "id": "C16",
        "technique": "static analysis: dominance in the snapshot's admission filter, format agreement of the storage form, argument agreement of the restore path; finite abstract evaluation (complete decision table) of the admission filter",
        "text": "Narrow claim - the fixed point snapshot -> restore -> snapshot is behavioural and not decided. Decides that the snapshot filter admits "
        "no RQ, no W other than 0404 fragments, and no expired packet unless asked (every truthy return dominated by the verb and expiry "
        "tests); that the stored key/value split of repr(pkt) matches Packet.__repr__/from_dict; and that the restore feeds the packets "
        "through the gateway's own handler and filter lists. R1 is read off the complete decision table of wanted_msg (verb x code x expired x include_expired) computed by abstract evaluation of its source: no admitted row has verb RQ, W only with code 0404, and an expired row is admitted only when asked for (per code; 313F is the recorded finding F16). Session 5: R3 also - the packets argument is replayed as given (never re-bound or mutated) and Gateway.start() starts the engine before the restore. Round 4: R3 also - the restore awaits the reader task itself, not a bounded wait.",
        "note": BASE_NOTE,
    },
    {
        "id": "C19",
        "technique": "static analysis: inductive containment invariant over every store (who-may-write, value provenance of the map builder, dominance of the log insertion, filter-condition rule, must-pass-through of the log filter after every map store on the CFG); finite abstract evaluation (decision tables with effects) of the two message handlers; exception-effect closure of the views; frame/payload layout agreement with the decoder",
        "text": "Narrow claim - the statement's core (positions are right, no entry at two positions, newest-first, the shift on an announcement) is the "
        "integer arithmetic of FaultLog._insert_into_map over histories and is NOT decided. Decides the clauses whose truth is in the shape of the code: "
        "(R1, R5) 'reading it never raises': values(_map) is a subset of keys(_log) as an inductive invariant of every store (the map is only stored "
        "with the builder's result; the builder's values are old map values or its non-None timestamp argument; a timestamp is a log key before it is "
        "installed, with no log store in between; the log is only added to, or filtered on exactly 'key in map.values()'; after every store to the map every normal exit passes such a filter (a pruning helper must prune on all its paths), so the views that read the log show nothing the map has dropped; the views subscript the log "
        "with map values or its own keys) and nothing else can leave the four views or the system's wrappers (max() only of collections known non-empty); "
        "(R2) 'no entry that the controller never reported': log entries are FaultLogEntry.from_msg of the message being handled, keyed by their own "
        "timestamp, and handle_msg is reached only under a 0418 test; (R3) from the handlers' complete decision tables: an RP null entry (idx always 00) "
        "is ignored, a message without a log index does not touch the map, a null entry truncates, every other entry is installed unless the map already "
        "holds exactly its timestamp at that index; (R4) the retrieval loop is bounded by 64, asks this controller for the loop index with "
        "wait_for_reply=True, a null reply goes through the index-restoring helper and ends the loop, and no return of get_faultlog bypasses the request loop (no answer from a cache of what is believed); (R6) that helper writes the index at the frame "
        "columns and payload offset where COMMAND_REGEX/parser_0418 put it.",
        "note": BASE_NOTE,
    },
]

NOT_APPLICABLE: list = []
